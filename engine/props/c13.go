package props

import (
	"encoding/json"
	"fmt"
	"strings"

	"github.com/berquerant/crd/op"
	"gopkg.in/yaml.v3"

	"verif/cli"
	"verif/ev"
	"verif/ref/theory"
)

// C13 — every supported key has the right scale and the right key signature.
// Complete space: 42 spellings [A-G][#b]?m? x 3 observation paths.

type c13Case struct {
	Spelling string `json:"spelling"`
	Path     string `json:"path"` // lib | describe | list
}

func init() {
	register(&Prop{ID: "C13", Run: runC13, Replay: map[string]func(*Env, json.RawMessage){
		"key": func(e *Env, raw json.RawMessage) { c13One(e, decode[c13Case](raw), nil) },
	}})
}

// scaleView is what one observation path says about a key.
type scaleView struct {
	Key   string
	Notes []string
	Sharp int
	Flat  int
}

func c13Check(e *Env, c c13Case, v scaleView) {
	fail := func(class, msg string) {
		e.R.Fail(ev.Fail{Class: class, Msg: fmt.Sprintf("%s via %s: %s", c.Spelling, c.Path, msg), Kind: "key", Case: c})
	}
	k, ok := theory.ParseKey(c.Spelling)
	if !ok {
		fail("C13/harness", "reference cannot parse spelling")
		return
	}
	if v.Key != c.Spelling {
		fail("C13/key-name/"+c.Path, fmt.Sprintf("reported key %q", v.Key))
	}
	want := k.Scale()
	if len(v.Notes) != 7 {
		fail("C13/scale-notes/"+c.Path, fmt.Sprintf("got %d notes %v", len(v.Notes), v.Notes))
		return
	}
	for i, s := range v.Notes {
		n, ok := theory.ParseNote(s)
		if !ok || n != want[i] {
			w := make([]string, 7)
			for j := range want {
				w[j] = want[j].String()
			}
			fail("C13/scale-notes/"+c.Path, fmt.Sprintf("scale %v, theory says %v", v.Notes, w))
			break
		}
	}
	// independent restatement: one letter each, step pattern
	pat := []int{2, 2, 1, 2, 2, 2, 1}
	if k.Minor {
		pat = []int{2, 1, 2, 2, 1, 2, 2}
	}
	seen := map[int]bool{}
	for i, s := range v.Notes {
		n, ok := theory.ParseNote(s)
		if !ok {
			continue
		}
		seen[n.Letter] = true
		m, ok2 := theory.ParseNote(v.Notes[(i+1)%7])
		if ok2 && theory.PitchDistance(n, m) != pat[i] {
			fail("C13/step-pattern/"+c.Path, fmt.Sprintf("step %d of %v is %d semitones, want %d", i, v.Notes, theory.PitchDistance(n, m), pat[i]))
			break
		}
	}
	if len(seen) != 7 {
		fail("C13/letters/"+c.Path, fmt.Sprintf("letters not used once each: %v", v.Notes))
	}
	sig := k.Signature()
	wantSharp, wantFlat := 0, 0
	if sig > 0 {
		wantSharp = sig
	} else {
		wantFlat = -sig
	}
	if v.Sharp != wantSharp || v.Flat != wantFlat {
		fail("C13/signature/"+c.Path, fmt.Sprintf("reports sharp=%d flat=%d, conventional signature is sharp=%d flat=%d", v.Sharp, v.Flat, wantSharp, wantFlat))
	}
	// altered notes = first n of F C G D A E B / B E A D G C F
	alt := map[string]bool{}
	for _, a := range k.AlteredNotes() {
		alt[a.String()] = true
	}
	got := map[string]bool{}
	for _, s := range v.Notes {
		if len(s) > 1 {
			got[s] = true
		}
	}
	if len(alt) != len(got) {
		fail("C13/altered/"+c.Path, fmt.Sprintf("altered notes %v, conventional %v", got, alt))
	} else {
		for a := range alt {
			if !got[a] {
				fail("C13/altered/"+c.Path, fmt.Sprintf("altered notes %v, conventional %v", got, alt))
				break
			}
		}
	}
}

func implScaleView(s *op.Scale) scaleView {
	v := scaleView{Key: s.Key.String(), Sharp: s.Sharp, Flat: s.Flat}
	for _, n := range s.Notes {
		v.Notes = append(v.Notes, n.String())
	}
	return v
}

type yamlScale struct {
	Key   string   `yaml:"key"`
	Notes []string `yaml:"notes"`
	Flat  int      `yaml:"flat"`
	Sharp int      `yaml:"sharp"`
}

func (y yamlScale) view() scaleView {
	return scaleView{Key: y.Key, Notes: y.Notes, Sharp: y.Sharp, Flat: y.Flat}
}

// failureShape checks the C09 failure shape of a refused command.
func failureShape(r cli.Res) string {
	switch {
	case r.TimedOut:
		return "hang"
	case r.Crashed():
		return "crash: " + firstLine(r.Stderr)
	case r.Exit == 0:
		return "exit status 0"
	case len(r.Stdout) != 0:
		return "result on stdout: " + firstLine(r.Stdout)
	case len(r.Stderr) == 0:
		return "no diagnostic on stderr"
	}
	return ""
}

func firstLine(b []byte) string {
	s := strings.TrimSpace(string(b))
	if i := strings.IndexByte(s, '\n'); i >= 0 {
		s = s[:i]
	}
	if len(s) > 200 {
		s = s[:200]
	}
	return s
}

// c13One evaluates one spelling on one path. list is the parsed `info key list` (path "list").
func c13One(e *Env, c c13Case, list map[string]yamlScale) {
	k, _ := theory.ParseKey(c.Spelling)
	supported := theory.IsSupported(k)
	fail := func(class, msg string) {
		e.R.Fail(ev.Fail{Class: class, Msg: fmt.Sprintf("%s via %s: %s", c.Spelling, c.Path, msg), Kind: "key", Case: c})
	}
	e.R.Eval(1)
	e.R.Transition(1)
	switch c.Path {
	case "lib":
		ik, err := op.ParseKey(c.Spelling)
		if err != nil {
			if supported {
				fail("C13/unsupported/lib", "ParseKey refuses a key the property names: "+err.Error())
			}
			return
		}
		s, err := op.NewScale(ik)
		if err != nil {
			if supported {
				fail("C13/unsupported/lib", "no scale for a key the property names: "+err.Error())
			}
			e.R.Outcome("lib-rejected")
			return
		}
		e.R.Outcome("lib:" + mustJSON(implScaleView(s)))
		c13Check(e, c, implScaleView(s))
	case "describe":
		r := cli.In("", "info", "key", "describe", "--key", c.Spelling)
		if r.OK() && len(r.Stdout) > 0 {
			var d struct {
				Scale yamlScale `yaml:"scale"`
			}
			if err := yaml.Unmarshal(r.Stdout, &d); err != nil {
				fail("C13/describe-output", "stdout is not YAML: "+err.Error())
				return
			}
			e.R.Outcome("describe:" + mustJSON(d.Scale))
			c13Check(e, c, d.Scale.view())
			return
		}
		if supported {
			fail("C13/unsupported/describe", "refused a key the property names: "+firstLine(r.Stderr))
			return
		}
		e.R.Outcome("describe-rejected")
		if why := failureShape(r); why != "" {
			fail("C13/rejection-shape", "spelling without scale not refused cleanly: "+why)
		}
	case "list":
		y, ok := list[c.Spelling]
		if !ok {
			if supported {
				fail("C13/unsupported/list", "`info key list` lacks a key the property names")
			}
			return
		}
		e.R.Outcome("list:" + mustJSON(y))
		c13Check(e, c, y.view())
	}
}

func runC13(e *Env) {
	e.R.Rule = "complete space: 42 key spellings [A-G][#b]?m? x {op.NewScale, `info key describe`, `info key list`}; a case is non-trivial when the implementation produced a scale that was compared with the line-of-fifths model"
	e.R.Assume("reference: line-of-fifths arithmetic (ref/theory); yaml.v3 and the Go runtime are trusted")
	spell := theory.AllKeySpellings()

	// `info key list`, read generically
	list := map[string]yamlScale{}
	lr := cli.In("", "info", "key", "list")
	var ys []yamlScale
	if !lr.OK() {
		e.R.Fail(ev.Fail{Class: "C13/list-fails", Msg: "info key list failed: " + firstLine(lr.Stderr), Kind: "key", Case: c13Case{"", "list"}})
	} else if err := yaml.Unmarshal(lr.Stdout, &ys); err != nil {
		e.R.Fail(ev.Fail{Class: "C13/list-output", Msg: "info key list: not YAML: " + err.Error(), Kind: "key", Case: c13Case{"", "list"}})
	}
	for _, y := range ys {
		if _, dup := list[y.Key]; dup {
			e.R.Fail(ev.Fail{Class: "C13/list-duplicate", Msg: "info key list lists " + y.Key + " twice", Kind: "key", Case: c13Case{y.Key, "list"}})
		}
		list[y.Key] = y
		if _, ok := theory.ParseKey(y.Key); !ok {
			e.R.Fail(ev.Fail{Class: "C13/list-foreign", Msg: "info key list has an entry that is no key spelling: " + y.Key, Kind: "key", Case: c13Case{y.Key, "list"}})
		}
	}

	var cases []c13Case
	for _, s := range spell {
		for _, p := range []string{"lib", "describe", "list"} {
			cases = append(cases, c13Case{s, p})
		}
	}
	parFor(len(cases), func(i int) {
		c := cases[i]
		e.R.State(c.Spelling)
		c13One(e, c, list)
		if k, _ := theory.ParseKey(c.Spelling); theory.IsSupported(k) {
			e.R.NonTrivial(c.Spelling + "/" + c.Path)
			e.R.Trace(1)
		}
	})
	// relative pairs share notes and signature (from the implementation's own answers)
	for _, k := range theory.SupportedKeys() {
		if k.Minor {
			continue
		}
		rel := theory.Key{Tonic: theory.NoteFromPos(k.Tonic.Pos() + 3), Minor: true}
		if !theory.IsSupported(rel) {
			continue
		}
		a, aok := list[k.String()]
		b, bok := list[rel.String()]
		if !aok || !bok {
			continue
		}
		e.R.Eval(1)
		sa := map[string]bool{}
		for _, n := range a.Notes {
			sa[n] = true
		}
		same := len(a.Notes) == len(b.Notes) && a.Flat == b.Flat && a.Sharp == b.Sharp
		for _, n := range b.Notes {
			if !sa[n] {
				same = false
			}
		}
		if !same {
			e.R.Fail(ev.Fail{Class: "C13/relative-pair", Msg: fmt.Sprintf("%s and %s do not share notes and signature: %v vs %v", k, rel, a, b), Kind: "key", Case: c13Case{k.String(), "list"}})
		}
	}
	e.R.Sample(map[string]any{"spelling": "Ebm", "list_entry": list["Ebm"]})
	e.R.Sample(cases[0])
	e.R.AddPart(ev.Part{Name: "key-spellings", Enumerated: "42 spellings x 3 observation paths + 13 relative pairs", Executions: int64(len(cases)), States: 42, Transitions: int64(len(cases)), Exhaustive: true})
}
