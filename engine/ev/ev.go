// Package ev collects what a check run covered, classifies failures against the
// committed known-findings file, writes replay files and the evidence file.
package ev

import (
	"crypto/sha256"
	"encoding/hex"
	"encoding/json"
	"fmt"
	"os"
	"path/filepath"
	"sort"
	"sync"
	"sync/atomic"
	"time"
)

// Fail is one failing case.
type Fail struct {
	Class string `json:"class"` // class key, specific to the failing input shape / call site
	Msg   string `json:"msg"`
	Kind  string `json:"kind"` // case kind understood by the property's replay function
	Case  any    `json:"case"`
}

// Part describes one exploration of a check.
type Part struct {
	Name        string `json:"name"`
	Enumerated  string `json:"enumerated"`
	Executions  int64  `json:"executions"`
	States      int64  `json:"states,omitempty"`
	Transitions int64  `json:"transitions,omitempty"`
	Exhaustive  bool   `json:"exhaustive"`
	Note        string `json:"note,omitempty"`
	Outcomes    int    `json:"distinct_outcomes,omitempty"`
}

type knownEntry struct {
	Property string `json:"property"`
	Class    string `json:"class"`
	What     string `json:"what"`
	Status   string `json:"status"`
	Commit   string `json:"commit,omitempty"`
}

// Run is the state of one check run.
type Run struct {
	Prop     string
	Tier     string
	Seed     int
	VerifDir string
	Rule     string

	start time.Time

	mu         sync.Mutex
	fails      map[string][]Fail // by class
	samples    []any
	parts      []Part
	assume     []string
	excluded   []string
	notes      []string
	states     map[string]struct{}
	nontrivial map[string]struct{}
	outcomes   map[string]struct{}

	nontrivialN int64
	evaluations int64
	transitions int64
	traces      int64
	exhaustive  bool
	capHit      []string
}

func New(prop, tier string, seed int, verifDir string) *Run {
	return &Run{Prop: prop, Tier: tier, Seed: seed, VerifDir: verifDir, start: time.Now(),
		fails: map[string][]Fail{}, states: map[string]struct{}{}, nontrivial: map[string]struct{}{},
		outcomes: map[string]struct{}{}, exhaustive: true}
}

func (r *Run) Eval(n int64)       { atomic.AddInt64(&r.evaluations, n) }
func (r *Run) Transition(n int64) { atomic.AddInt64(&r.transitions, n) }
func (r *Run) Trace(n int64)      { atomic.AddInt64(&r.traces, n) }
func (r *Run) Evaluations() int64 { return atomic.LoadInt64(&r.evaluations) }

// State records a canonical state key (distinct states are counted).
func (r *Run) State(k string) {
	r.mu.Lock()
	r.states[k] = struct{}{}
	r.mu.Unlock()
}

// NonTrivial records a distinct non-trivial case key.
func (r *Run) NonTrivial(k string) {
	r.mu.Lock()
	r.nontrivial[k] = struct{}{}
	r.mu.Unlock()
}

// Outcome records a distinct observed outcome (vacuity alarm: many executions, one outcome).
func (r *Run) Outcome(k string) {
	r.mu.Lock()
	if len(r.outcomes) < 1<<20 {
		r.outcomes[k] = struct{}{}
	}
	r.mu.Unlock()
}

// NonTrivialN counts n more distinct non-trivial cases that are distinct by construction of
// the enumeration (no key is stored).
func (r *Run) NonTrivialN(n int64) { atomic.AddInt64(&r.nontrivialN, n) }

func (r *Run) Sample(s any) {
	r.mu.Lock()
	if len(r.samples) < 12 {
		r.samples = append(r.samples, s)
	}
	r.mu.Unlock()
}
func (r *Run) Assume(s string)  { r.mu.Lock(); r.assume = append(r.assume, s); r.mu.Unlock() }
func (r *Run) Exclude(s string) { r.mu.Lock(); r.excluded = append(r.excluded, s); r.mu.Unlock() }
func (r *Run) Note(s string)    { r.mu.Lock(); r.notes = append(r.notes, s); r.mu.Unlock() }
func (r *Run) AddPart(p Part) {
	r.mu.Lock()
	r.parts = append(r.parts, p)
	if !p.Exhaustive {
		r.exhaustive = false
	}
	r.mu.Unlock()
	fmt.Printf("[%6.1fs] part %-28s executions=%d states=%d transitions=%d exhaustive=%v %s\n", time.Since(r.start).Seconds(), p.Name, p.Executions, p.States, p.Transitions, p.Exhaustive, p.Note)
}

// NotExhaustive marks the run as capped, with the reason.
func (r *Run) NotExhaustive(why string) {
	r.mu.Lock()
	r.exhaustive = false
	r.capHit = append(r.capHit, why)
	r.mu.Unlock()
}

// Fail records a failing case.
func (r *Run) Fail(f Fail) {
	if len(f.Msg) > 3000 {
		// long documents: the replay file has the whole case
		f.Msg = f.Msg[:1500] + " [...] " + f.Msg[len(f.Msg)-1200:]
	}
	r.mu.Lock()
	if len(r.fails[f.Class]) < 50 {
		r.fails[f.Class] = append(r.fails[f.Class], f)
	}
	r.mu.Unlock()
}

func (r *Run) FailCount() int {
	r.mu.Lock()
	defer r.mu.Unlock()
	n := 0
	for _, v := range r.fails {
		n += len(v)
	}
	return n
}

func (r *Run) loadKnown() []knownEntry {
	b, err := os.ReadFile(filepath.Join(r.VerifDir, "known_findings.json"))
	if err != nil {
		return nil
	}
	var k struct {
		Findings []knownEntry `json:"findings"`
	}
	if err := json.Unmarshal(b, &k); err != nil {
		fmt.Fprintf(os.Stderr, "known_findings.json unreadable: %v\n", err)
		os.Exit(2)
	}
	return k.Findings
}

// Finish writes replay files, prints the verdict lines, writes evidence and returns the exit code.
func (r *Run) Finish() int {
	known := map[string]knownEntry{}
	for _, k := range r.loadKnown() {
		if k.Property == r.Prop && k.Status == "open" {
			known[k.Class] = k
		}
	}
	classes := make([]string, 0, len(r.fails))
	for c := range r.fails {
		classes = append(classes, c)
	}
	sort.Strings(classes)
	violations := 0
	knownHit := map[string]bool{}
	for _, c := range classes {
		fs := r.fails[c]
		if k, ok := known[c]; ok {
			knownHit[c] = true
			fmt.Printf("KNOWN-FINDING: property=%s %s [class %s, %d case(s) this run, e.g. %s]\n", r.Prop, k.What, c, len(fs), oneLine(fs[0].Msg))
			continue
		}
		violations += len(fs)
		f := fs[0]
		body := map[string]any{
			"property": r.Prop, "tier": r.Tier, "class": c, "kind": f.Kind, "case": f.Case, "msg": f.Msg,
			"more_cases_same_class": len(fs) - 1,
			"replay_cmd":            fmt.Sprintf("./check %s --replay <this file>", r.Prop),
		}
		if len(fs) > 1 {
			var others []any
			for _, o := range fs[1:min(len(fs), 6)] {
				others = append(others, map[string]any{"kind": o.Kind, "case": o.Case, "msg": o.Msg})
			}
			body["other_cases"] = others
		}
		b, _ := json.MarshalIndent(body, "", " ")
		h := sha256.Sum256(b)
		dir := filepath.Join(r.VerifDir, "replay")
		_ = os.MkdirAll(dir, 0o755)
		p := filepath.Join(dir, fmt.Sprintf("%s-%s.json", r.Prop, hex.EncodeToString(h[:6])))
		_ = os.WriteFile(p, b, 0o644)
		fmt.Printf("FAIL class=%s cases=%d first: %s\n", c, len(fs), oneLine(f.Msg))
		fmt.Printf("VIOLATION property=%s replay=%s\n", r.Prop, p)
	}
	// A known finding that did not show up is reported (not an error: it may have been fixed).
	for c, k := range known {
		if !knownHit[c] {
			fmt.Printf("note: known finding class %s (%s) did not occur in this run\n", c, k.What)
		}
	}
	r.writeEvidence(violations, len(knownHit))
	if violations > 0 {
		return 1
	}
	return 0
}

func oneLine(s string) string {
	b := []rune(s)
	for i, c := range b {
		if c == '\n' || c == '\r' {
			b[i] = ' '
		}
	}
	if len(b) > 300 {
		b = append(b[:300], '…')
	}
	return string(b)
}

func (r *Run) writeEvidence(violations, knownHits int) {
	if len(r.samples) == 0 {
		r.samples = append(r.samples, "no sample recorded")
	}
	states := int64(len(r.states))
	cov := map[string]any{
		"states":                        states,
		"transitions":                   r.transitions,
		"traces_validated_against_impl": r.traces,
		"evaluations":                   r.evaluations,
		"distinct_nontrivial":           int64(len(r.nontrivial)) + r.nontrivialN,
		"rule":                          r.Rule,
		"samples":                       r.samples,
		"exhaustive":                    r.exhaustive,
		"parts":                         r.parts,
		"distinct_observed_outcomes":    len(r.outcomes),
		"excluded":                      r.excluded,
		"caps_hit":                      r.capHit,
		"known_findings_seen":           knownHits,
		"notes":                         r.notes,
	}
	e := map[string]any{
		"property_id": r.Prop,
		"tier":        r.Tier,
		"seed":        r.Seed,
		"level":       "model_checking",
		"coverage":    cov,
		"assumptions": r.assume,
		"wall_s":      time.Since(r.start).Seconds(),
		"violations":  violations,
	}
	b, _ := json.MarshalIndent(e, "", " ")
	dir := filepath.Join(r.VerifDir, "evidence")
	_ = os.MkdirAll(dir, 0o755)
	if err := os.WriteFile(filepath.Join(dir, r.Prop+".json"), append(b, '\n'), 0o644); err != nil {
		fmt.Fprintf(os.Stderr, "cannot write evidence: %v\n", err)
	}
	fmt.Printf("summary property=%s tier=%s evaluations=%d states=%d transitions=%d traces=%d nontrivial=%d outcomes=%d exhaustive=%v violations=%d wall=%.1fs\n",
		r.Prop, r.Tier, r.evaluations, states, r.transitions, r.traces, int64(len(r.nontrivial))+r.nontrivialN, len(r.outcomes), r.exhaustive, violations, time.Since(r.start).Seconds())
}

// FinishReplay prints the failures of a replayed case; no evidence or replay file is written.
func (r *Run) FinishReplay() int {
	for c, fs := range r.fails {
		for _, f := range fs {
			fmt.Printf("replay: FAIL class=%s %s\n", c, f.Msg)
		}
	}
	fmt.Printf("VIOLATION property=%s replay=(replayed)\n", r.Prop)
	return 1
}
