//go:build verif

package props

import (
	"github.com/berquerant/crd/input/ast"

	"verif/ref/chordlang"
)

const hooksOn = true

func lexMode(lex *ast.Lexer) (chordlang.Mode, bool) {
	s, m := lex.VerifMode()
	return chordlang.Mode{ExpectSymbol: s, ExpectMetadata: m}, true
}
