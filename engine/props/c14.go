package props

import (
	"encoding/json"
	"fmt"
	"sort"
	"strings"

	"github.com/berquerant/crd/op"
	"gopkg.in/yaml.v3"

	"verif/cli"
	"verif/ev"
	"verif/mc"
	"verif/ref/theory"
)

// C14 — circle-of-fifths conversions obey their laws for every key and every chain.

type c14Case struct {
	Key   string `json:"key"`
	Chain string `json:"chain"`
	Path  string `json:"path"`
}

func init() {
	register(&Prop{ID: "C14", Run: runC14, Replay: map[string]func(*Env, json.RawMessage){
		"chain": func(e *Env, raw json.RawMessage) { c14Eval(e, decode[c14Case](raw), true) },
	}})
}

var c14Conv = map[byte]op.KeyConversion{'p': op.ParallelKey, 'r': op.RelativeKey, 'd': op.DominantKey, 's': op.SubDominantKey}

// refChain composes the steps by pitch-class arithmetic and returns every supported spelling of the target.
// c14Supported is the set of keys crd supports: the 28 of the statement plus whatever else
// `info key list` offers (a key that has a scale is a key the conversions must know).
var c14Supported = append([]string{}, theory.SupportedKeyNames...)

func refChain(key string, chain string) []string {
	k, _ := theory.ParseKey(key)
	pc, minor := k.Tonic.PC(), k.Minor
	for i := 0; i < len(chain); i++ {
		cur := theory.Key{Tonic: noteOfPC(pc), Minor: minor}
		pc, minor = cur.Step(chain[i])
	}
	var r []string
	for _, s := range c14Supported {
		if sk, ok := theory.ParseKey(s); ok && sk.Minor == minor && sk.Tonic.PC() == pc {
			r = append(r, s)
		}
	}
	sort.Strings(r)
	return r
}

func noteOfPC(pc int) theory.Note {
	for p := -7; p <= 12; p++ {
		if n := theory.NoteFromPos(p); n.PC() == pc {
			return n
		}
	}
	panic("pc")
}

// implChainLib runs KeyConversionChain.Convert in-process.
func implChainLib(key, chain string) (out []string, err error) {
	defer func() {
		if r := recover(); r != nil {
			err = panicError{r}
		}
	}()
	k, err := op.ParseKey(key)
	if err != nil {
		return nil, err
	}
	cc := make(op.KeyConversionChain, len(chain))
	for i := 0; i < len(chain); i++ {
		cc[i] = c14Conv[chain[i]]
	}
	m, err := cc.Convert(op.NewCircleOfFifth(), k)
	if err != nil {
		return nil, err
	}
	for x := range m.Keys().All() {
		out = append(out, x.String())
	}
	sort.Strings(out)
	return out, nil
}

func c14Eval(e *Env, c c14Case, report bool) ([]string, bool) {
	e.R.Eval(1)
	fail := func(class, msg string) ([]string, bool) {
		if report {
			e.R.Fail(ev.Fail{Class: class, Msg: fmt.Sprintf("key %s chain %q (%s): %s", c.Key, c.Chain, c.Path, msg), Kind: "chain", Case: c})
		}
		return nil, false
	}
	want := refChain(c.Key, c.Chain)
	var got []string
	if c.Path == "cli" {
		r := cli.In("", "info", "key", "conv", "--key", c.Key, "-c", c.Chain)
		if !r.OK() {
			return fail("C14/chain-fails/cli", "the conversion fails: "+firstLine(r.Stderr))
		}
		for _, l := range strings.Split(strings.TrimSpace(string(r.Stdout)), "\n") {
			if l != "" {
				got = append(got, l)
			}
		}
		sort.Strings(got)
	} else {
		var err error
		got, err = implChainLib(c.Key, c.Chain)
		if err != nil {
			cl := "C14/chain-fails/lib"
			if isPanic(err) {
				cl = "C14/crash"
			}
			return fail(cl, "the conversion fails: "+err.Error())
		}
	}
	if strings.Join(got, " ") != strings.Join(want, " ") {
		step := "chain"
		if len(c.Chain) == 1 {
			step = "step-" + c.Chain
		}
		return fail("C14/wrong-target/"+step+"/"+c.Path, fmt.Sprintf("result {%s}, theory says {%s}", strings.Join(got, " "), strings.Join(want, " ")))
	}
	e.R.Outcome(strings.Join(got, " "))
	return got, true
}

func runC14(e *Env) {
	e.R.Rule = "explicit-state: the 28 keys x {p,r,d,s} from every key (every spelling of every circle member is a state of its own), each edge checked; all chains over {p,r,d,s} up to length 6 from all 28 keys in-process (152 880), up to length 3/4 through the real binary, single-letter chains of length 12, 24, 48; laws asserted directly. distinct = (key, chain); non-trivial = every case (each compares a result set)"
	e.R.Assume("reference: pitch-class arithmetic (d +7, s -7, r -/+3 with mode switch, p mode switch) and the set of supported spellings of a pitch class and mode (ref/theory); the printed set is compared as a set (order is C12's business)")
	// keys beyond the 28 that the implementation offers
	if lr := cli.In("", "info", "key", "list"); lr.OK() {
		var ys []yamlScale
		if yaml.Unmarshal(lr.Stdout, &ys) == nil {
			have := map[string]bool{}
			for _, s := range c14Supported {
				have[s] = true
			}
			for _, y := range ys {
				if _, ok := theory.ParseKey(y.Key); ok && !have[y.Key] {
					have[y.Key] = true
					c14Supported = append(c14Supported, y.Key)
					e.R.Note("key beyond the 28 offered by `info key list`: " + y.Key)
				}
			}
		}
	}
	keys := c14Supported
	// graph: single steps from every spelling
	var edges []c14Case
	for _, k := range keys {
		for _, s := range "prds" {
			edges = append(edges, c14Case{k, string(s), "lib"})
		}
		e.R.State("key:" + k)
	}
	for _, c := range edges {
		c14Eval(e, c, true)
		e.R.Transition(1)
		cc := c
		cc.Path = "cli"
		c14Eval(e, cc, true)
	}
	e.R.AddPart(ev.Part{Name: "single-steps", Enumerated: "28 key states x 4 conversions, in-process and real binary; BFS from any key closes over exactly these 28 states (fixpoint)", Executions: int64(2 * len(edges)), States: 28, Transitions: int64(len(edges)), Exhaustive: true})

	// laws, asserted directly on the implementation's answers
	law := func(k, a, b string) {
		x, ok1 := c14Eval(e, c14Case{k, a, "lib"}, false)
		y, ok2 := c14Eval(e, c14Case{k, b, "lib"}, false)
		if ok1 && ok2 && strings.Join(x, " ") != strings.Join(y, " ") {
			e.R.Fail(ev.Fail{Class: "C14/law", Msg: fmt.Sprintf("from %s: chain %q gives {%s} but chain %q gives {%s}", k, a, strings.Join(x, " "), b, strings.Join(y, " ")), Kind: "chain", Case: c14Case{k, a, "lib"}})
		}
	}
	for _, k := range keys {
		law(k, "ds", "sd")
		law(k, "dsd", "d")
		law(k, "rrd", "d")
		law(k, "ppd", "d")
		law(k, strings.Repeat("d", 12)+"s", "s")
		law(k, strings.Repeat("s", 12)+"d", "d")
		law(k, "pd", "dp")
		law(k, "rd", "dr")
	}

	// all chains up to length 6
	maxLen := 6
	if e.Thorough {
		maxLen = 8
	}
	var chains []string
	var gen func(s string)
	gen = func(s string) {
		if s != "" {
			chains = append(chains, s)
		}
		if len(s) == maxLen {
			return
		}
		for _, c := range "prds" {
			gen(s + string(c))
		}
	}
	gen("")
	total := len(chains) * len(keys)
	mc.ParFor(total, func(i int) {
		c := c14Case{keys[i%len(keys)], chains[i/len(keys)], "lib"}
		if _, ok := c14Eval(e, c, false); !ok {
			c14Eval(e, c, true)
		}
		e.R.Trace(1)
		e.R.Transition(int64(len(c.Chain)))
		e.R.NonTrivial(c.Key + c.Chain)
	})
	e.R.AddPart(ev.Part{Name: "chains-in-process", Enumerated: fmt.Sprintf("all %d chains over {p,r,d,s} of length 1..%d from all 28 keys", len(chains), maxLen), Executions: int64(total), Exhaustive: true})

	// pumped chains: every word of length 1..3 repeated until the chain is 12, 24, 48, 96 (and 480) letters long
	var pumped []string
	for _, w := range chains {
		if len(w) > 3 {
			continue
		}
		for _, n := range []int{12, 24, 48, 96, 480} {
			if n%len(w) != 0 || len(w) == 1 && n <= 48 {
				continue
			}
			pumped = append(pumped, strings.Repeat(w, n/len(w)))
			pumped = append(pumped, strings.Repeat(w, n/len(w))+"d", "r"+strings.Repeat(w, n/len(w)))
		}
	}
	mc.ParFor(len(pumped)*len(keys), func(i int) {
		c := c14Case{keys[i%len(keys)], pumped[i/len(keys)], "lib"}
		c14Eval(e, c, true)
		e.R.Trace(1)
		e.R.Transition(int64(len(c.Chain)))
		e.R.NonTrivialN(1)
		if i%23 == 0 {
			c.Path = "cli"
			c14Eval(e, c, true)
		}
	})
	e.R.AddPart(ev.Part{Name: "pumped-chains", Enumerated: fmt.Sprintf("every word of length 1..3 over {p,r,d,s} repeated to 12, 24, 48, 96 and 480 letters, also followed by d and preceded by r (%d chains) from all 28 keys in-process, every 23rd through the real binary", len(pumped)), Executions: int64(len(pumped) * len(keys)), Exhaustive: true})

	// CLI chains
	cliLen := 4
	if e.Thorough {
		cliLen = 5
	}
	var cc []c14Case
	for _, ch := range chains {
		if len(ch) <= cliLen {
			for _, k := range keys {
				cc = append(cc, c14Case{k, ch, "cli"})
			}
		}
	}
	for _, k := range keys {
		for _, n := range []int{12, 24, 48} {
			for _, s := range "prds" {
				cc = append(cc, c14Case{k, strings.Repeat(string(s), n), "cli"})
			}
		}
	}
	mc.ParFor(len(cc), func(i int) {
		c14Eval(e, cc[i], true)
		e.R.Trace(1)
	})
	e.R.AddPart(ev.Part{Name: "chains-cli", Enumerated: fmt.Sprintf("real binary `info key conv`: all chains of length <= %d from all 28 keys; single-letter chains of length 12, 24, 48", cliLen), Executions: int64(len(cc)), Exhaustive: true})
	// unknown conversion letters and unsupported keys must be refused
	for _, bad := range []c14Case{{"C", "x", "cli"}, {"C", "dxd", "cli"}, {"Fb", "d", "cli"}, {"C", "", "cli"}} {
		r := cli.In("", "info", "key", "conv", "--key", bad.Key, "-c", bad.Chain)
		e.R.Eval(1)
		if why := failureShape(r); why != "" {
			e.R.Fail(ev.Fail{Class: "C14/nonsense-accepted", Msg: fmt.Sprintf("key %s chain %q is not refused cleanly: %s", bad.Key, bad.Chain, why), Kind: "chain", Case: bad})
		}
	}
	e.R.Sample(map[string]any{"key": "G#m", "chain": "rpd", "theory": refChain("G#m", "rpd")})
}
