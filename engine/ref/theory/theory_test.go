package theory

import "testing"

// Textbook facts, written by hand: the reference must agree with them.
func TestSizes(t *testing.T) {
	for s, want := range map[string]int{
		"1": 0, "b2": 1, "2": 2, "b3": 3, "3": 4, "4": 5, "#4": 6, "b5": 6, "bb5": 6, "5": 7, "#5": 8, "b6": 8, "6": 9,
		"bb7": 9, "b7": 10, "7": 11, "8": 12, "b9": 13, "9": 14, "#9": 15, "11": 17, "#11": 18, "b13": 20, "13": 21, "15": 24,
		"bbb7": 8, "bbb5": 5, "##4": 7, "##1": 2, "bb1": -1, "bbb1": -2, "bb2": 0, "bbb2": -1, "16": 26, "22": 36,
	} {
		i, ok := ParseNotation(s)
		if !ok || !i.Exists() {
			t.Fatalf("%s does not parse", s)
		}
		if got := i.MustSize(); got != want {
			t.Errorf("%s = %d semitones, want %d", s, got, want)
		}
	}
	for _, bad := range []Interval{{4, Major}, {5, Minor}, {2, Perfect}, {8, Major}, {0, Perfect}, {11, Minor}} {
		if bad.Exists() {
			t.Errorf("%v must not exist", bad)
		}
	}
	if n := len(IntervalsUpTo(15)); n != 83 {
		t.Errorf("%d intervals up to 15, want 83", n)
	}
	if n := len(IntervalsUpTo(64)); n != 356 {
		t.Errorf("%d intervals up to 64, want 356", n)
	}
}

func TestKeys(t *testing.T) {
	sig := map[string]int{"C": 0, "G": 1, "D": 2, "A": 3, "E": 4, "B": 5, "F#": 6, "C#": 7, "F": -1, "Bb": -2, "Eb": -3, "Ab": -4, "Db": -5, "Gb": -6, "Cb": -7,
		"Am": 0, "Em": 1, "Bm": 2, "F#m": 3, "C#m": 4, "G#m": 5, "D#m": 6, "Dm": -1, "Gm": -2, "Cm": -3, "Fm": -4, "Bbm": -5, "Ebm": -6}
	if len(sig) != 28 || len(SupportedKeys()) != 28 {
		t.Fatal("28 keys")
	}
	for name, want := range sig {
		k, ok := ParseKey(name)
		if !ok || !IsSupported(k) {
			t.Fatalf("%s unsupported", name)
		}
		if k.Signature() != want {
			t.Errorf("%s signature %d, want %d", name, k.Signature(), want)
		}
	}
	scale := func(name string) string {
		k, _ := ParseKey(name)
		s := ""
		for _, n := range k.Scale() {
			s += n.String() + " "
		}
		return s
	}
	for name, want := range map[string]string{
		"C": "C D E F G A B ", "Ebm": "Eb F Gb Ab Bb Cb Db ", "F#": "F# G# A# B C# D# E# ", "Cb": "Cb Db Eb Fb Gb Ab Bb ",
		"G#m": "G# A# B C# D# E F# ", "Dm": "D E F G A Bb C ", "C#": "C# D# E# F# G# A# B# ",
	} {
		if got := scale(name); got != want {
			t.Errorf("%s scale %q, want %q", name, got, want)
		}
	}
	cb, _ := ParseKey("Cb")
	b, _ := ParseKey("B")
	if cb.TonicOffset() != -1 || b.TonicOffset() != 11 || cb.Tonic.PC() != 11 {
		t.Error("tonic offsets of Cb / B")
	}
	if got := SpellingsOf(11, false); len(got) != 2 || got[0] != "B" || got[1] != "Cb" {
		t.Errorf("spellings of B major: %v", got)
	}
	g, _ := ParseKey("G#m")
	if pc, minor := g.Step('r'); pc != 11 || minor {
		t.Errorf("relative of G#m: %d %v", pc, minor)
	}
	if n := len(AllKeySpellings()); n != 42 {
		t.Errorf("%d spellings", n)
	}
}
