// Package chordlang is the reference for the chord text language: a tokeniser written
// from the documented rules, a reader of the rules section of chords.y that yields a plain
// CFG, two recognisers for it (Earley and SLR(1), cross-checked against each other) and an
// independent recursive-descent tree builder for the documented chord shape.
package chordlang

import (
	"fmt"
	"os"
	"sort"
	"strings"
	"unicode"
)

// Tok is one token: the terminal name used in chords.y and its text.
type Tok struct {
	Kind string `json:"kind"`
	Val  string `json:"val"`
}

// Mode is the tokeniser mode carried between tokens.
type Mode struct {
	ExpectSymbol   bool `json:"expect_symbol"`
	ExpectMetadata bool `json:"expect_metadata"`
}

var single = map[rune]string{
	'C': "SYLLABLE", 'D': "SYLLABLE", 'E': "SYLLABLE", 'F': "SYLLABLE", 'G': "SYLLABLE", 'A': "SYLLABLE", 'B': "SYLLABLE",
	'R': "REST", '/': "SLASH", '[': "LBRA", ']': "RBRA", '{': "LCBRA", '}': "RCBRA", '=': "EQUAL", ',': "COMMA",
	'#': "SHARP", '♯': "SHARP", 'b': "FLAT", '♭': "FLAT", '_': "UNDERSCORE",
}

func isSymbolRune(r rune) bool { return !strings.ContainsRune("/[_;=", r) && !unicode.IsSpace(r) }
func isMetaRune(r rune) bool   { return !strings.ContainsRune("{}=,", r) }

// Tokenize applies the documented tokenisation: outside braces spaces and `;...\n`
// comments are ignored, single-character tokens, digit runs, `_` forces a symbol, a
// symbol is a maximal run of non-space characters outside /[_;= ; `{` switches to runs
// free of {}=, (leading spaces dropped) until `}`. lexErr: `_` not followed by a symbol.
// modes[i] is the mode after token i.
func Tokenize(s string) (toks []Tok, modes []Mode, lexErr bool) {
	rs := []rune(s)
	i := 0
	var m Mode
	for {
		for i < len(rs) && unicode.IsSpace(rs[i]) {
			i++
		}
		if m.ExpectMetadata && i < len(rs) && isMetaRune(rs[i]) {
			j := i
			for j < len(rs) && isMetaRune(rs[j]) {
				j++
			}
			toks = append(toks, Tok{"METADATA", string(rs[i:j])})
			modes = append(modes, m)
			i = j
			continue
		}
		if m.ExpectSymbol {
			// comments are trivia between `_` and its symbol as between any two tokens
			for i < len(rs) && rs[i] == ';' {
				for i < len(rs) && rs[i] != '\n' {
					i++
				}
				for i < len(rs) && unicode.IsSpace(rs[i]) {
					i++
				}
			}
			if i < len(rs) && isSymbolRune(rs[i]) {
				j := i
				for j < len(rs) && isSymbolRune(rs[j]) {
					j++
				}
				m.ExpectSymbol = false
				toks = append(toks, Tok{"SYMBOL", string(rs[i:j])})
				modes = append(modes, m)
				i = j
				continue
			}
			return toks, modes, true
		}
		if i >= len(rs) {
			return toks, modes, false
		}
		c := rs[i]
		if c == ';' {
			for i < len(rs) && rs[i] != '\n' {
				i++
			}
			continue
		}
		if k, ok := single[c]; ok {
			switch k {
			case "LCBRA":
				m.ExpectMetadata = true
			case "RCBRA":
				m.ExpectMetadata = false
			case "UNDERSCORE":
				m.ExpectSymbol = true
			}
			toks = append(toks, Tok{k, string(c)})
			modes = append(modes, m)
			i++
			continue
		}
		if c >= '0' && c <= '9' {
			j := i
			for j < len(rs) && rs[j] >= '0' && rs[j] <= '9' {
				j++
			}
			toks = append(toks, Tok{"NUMBER", string(rs[i:j])})
			modes = append(modes, m)
			i = j
			continue
		}
		// symbol run (c is not a space and not one of /[_;= here)
		j := i
		for j < len(rs) && isSymbolRune(rs[j]) {
			j++
		}
		toks = append(toks, Tok{"SYMBOL", string(rs[i:j])})
		modes = append(modes, m)
		i = j
	}
}

// ---------------------------------------------------------------- grammar

// Rule is one production.
type Rule struct {
	LHS string
	RHS []string
}

func (r Rule) String() string { return r.LHS + " -> " + strings.Join(r.RHS, " ") }

// Grammar is a plain CFG.
type Grammar struct {
	Start string
	Rules []Rule
	Terms []string // declared tokens, in declaration order
	nt    map[string]bool
}

func (g *Grammar) IsTerm(s string) bool { return !g.nt[s] }

// ReadYacc extracts the tokens and the rules section of a yacc file.
func ReadYacc(path string) (*Grammar, error) {
	b, err := os.ReadFile(path)
	if err != nil {
		return nil, err
	}
	src := string(b)
	parts := strings.SplitN(src, "\n%%", 3)
	if len(parts) < 2 {
		return nil, fmt.Errorf("%s: no rules section", path)
	}
	g := &Grammar{nt: map[string]bool{}}
	for _, line := range strings.Split(parts[0], "\n") {
		f := strings.Fields(line)
		if len(f) >= 2 && f[0] == "%token" {
			for _, t := range f[1:] {
				if strings.HasPrefix(t, "<") {
					continue
				}
				g.Terms = append(g.Terms, t)
			}
		}
	}
	// tokenise the rules section
	type ytok struct {
		kind string // id : | ; act
		val  string
	}
	var ts []ytok
	rs := []rune(parts[1])
	for i := 0; i < len(rs); {
		c := rs[i]
		switch {
		case unicode.IsSpace(c):
			i++
		case c == '/' && i+1 < len(rs) && rs[i+1] == '/':
			for i < len(rs) && rs[i] != '\n' {
				i++
			}
		case c == '/' && i+1 < len(rs) && rs[i+1] == '*':
			i += 2
			for i+1 < len(rs) && !(rs[i] == '*' && rs[i+1] == '/') {
				i++
			}
			i += 2
		case c == ':' || c == '|' || c == ';':
			ts = append(ts, ytok{string(c), ""})
			i++
		case c == '{':
			depth := 0
			for i < len(rs) {
				switch rs[i] {
				case '{':
					depth++
				case '}':
					depth--
				case '"', '`', '\'':
					q := rs[i]
					i++
					for i < len(rs) && rs[i] != q {
						if rs[i] == '\\' && q != '`' {
							i++
						}
						i++
					}
				}
				i++
				if depth == 0 {
					break
				}
			}
			ts = append(ts, ytok{"act", ""})
		case unicode.IsLetter(c) || c == '_':
			j := i
			for j < len(rs) && (unicode.IsLetter(rs[j]) || unicode.IsDigit(rs[j]) || rs[j] == '_') {
				j++
			}
			ts = append(ts, ytok{"id", string(rs[i:j])})
			i = j
		default:
			return nil, fmt.Errorf("%s: unexpected %q in the rules section", path, c)
		}
	}
	for i := 0; i < len(ts); {
		if ts[i].kind != "id" || i+1 >= len(ts) || ts[i+1].kind != ":" {
			return nil, fmt.Errorf("%s: rule expected at token %d (%v)", path, i, ts[i])
		}
		lhs := ts[i].val
		g.nt[lhs] = true
		i += 2
		var rhs []string
		flush := func() {
			g.Rules = append(g.Rules, Rule{lhs, rhs})
			rhs = nil
		}
	alt:
		for i < len(ts) {
			switch ts[i].kind {
			case "id":
				if i+1 < len(ts) && ts[i+1].kind == ":" {
					break alt
				}
				rhs = append(rhs, ts[i].val)
				i++
			case "act":
				i++
			case "|":
				flush()
				i++
			case ";":
				i++
				break alt
			default:
				return nil, fmt.Errorf("%s: unexpected %q", path, ts[i].kind)
			}
		}
		flush()
	}
	if len(g.Rules) == 0 {
		return nil, fmt.Errorf("%s: no rules", path)
	}
	g.Start = g.Rules[0].LHS
	for _, r := range g.Rules {
		for _, s := range r.RHS {
			if !g.nt[s] {
				found := false
				for _, t := range g.Terms {
					if t == s {
						found = true
					}
				}
				if !found {
					return nil, fmt.Errorf("%s: symbol %s is neither a rule nor a %%token", path, s)
				}
			}
		}
	}
	return g, nil
}

// ---------------------------------------------------------------- Earley

type eitem struct{ rule, dot, origin int }

// Earley recognises a token-kind string.
func (g *Grammar) Earley(kinds []string) bool {
	n := len(kinds)
	sets := make([]map[eitem]bool, n+1)
	order := make([][]eitem, n+1)
	add := func(i int, it eitem) {
		if sets[i] == nil {
			sets[i] = map[eitem]bool{}
		}
		if !sets[i][it] {
			sets[i][it] = true
			order[i] = append(order[i], it)
		}
	}
	for ri, r := range g.Rules {
		if r.LHS == g.Start {
			add(0, eitem{ri, 0, 0})
		}
	}
	for i := 0; i <= n; i++ {
		for k := 0; k < len(order[i]); k++ {
			it := order[i][k]
			r := g.Rules[it.rule]
			if it.dot < len(r.RHS) {
				sym := r.RHS[it.dot]
				if g.nt[sym] {
					for ri, r2 := range g.Rules {
						if r2.LHS == sym {
							add(i, eitem{ri, 0, i})
						}
					}
					// nullable completion already in this set
					for _, c := range order[i] {
						cr := g.Rules[c.rule]
						if c.origin == i && c.dot == len(cr.RHS) && cr.LHS == sym {
							add(i, eitem{it.rule, it.dot + 1, it.origin})
						}
					}
				} else if i < n && kinds[i] == sym {
					add(i+1, eitem{it.rule, it.dot + 1, it.origin})
				}
			} else {
				for _, p := range order[it.origin] {
					pr := g.Rules[p.rule]
					if p.dot < len(pr.RHS) && pr.RHS[p.dot] == r.LHS {
						add(i, eitem{p.rule, p.dot + 1, p.origin})
					}
				}
			}
		}
	}
	for it := range sets[n] {
		r := g.Rules[it.rule]
		if r.LHS == g.Start && it.dot == len(r.RHS) && it.origin == 0 {
			return true
		}
	}
	return false
}

// ---------------------------------------------------------------- SLR(1)

type lritem struct{ rule, dot int }

// SLR is a deterministic parser built from the grammar; Conflicts lists SLR(1) conflicts.
type SLR struct {
	g         *Grammar
	states    [][]lritem
	gotoT     []map[string]int
	reduce    []map[string]int // state -> lookahead -> rule
	Conflicts []string
	accRule   int
}

const endMark = "$end"

// BuildSLR constructs the SLR(1) automaton of the grammar augmented with S' -> Start.
func (g *Grammar) BuildSLR() *SLR {
	rules := append([]Rule{{"$accept", []string{g.Start}}}, g.Rules...)
	ag := &Grammar{Start: "$accept", Rules: rules, Terms: g.Terms, nt: map[string]bool{"$accept": true}}
	for k := range g.nt {
		ag.nt[k] = true
	}
	// nullable, FIRST, FOLLOW
	nullable := map[string]bool{}
	first := map[string]map[string]bool{}
	follow := map[string]map[string]bool{}
	for nt := range ag.nt {
		first[nt] = map[string]bool{}
		follow[nt] = map[string]bool{}
	}
	firstOf := func(sym string) map[string]bool {
		if ag.nt[sym] {
			return first[sym]
		}
		return map[string]bool{sym: true}
	}
	for changed := true; changed; {
		changed = false
		for _, r := range rules {
			allNull := true
			for _, s := range r.RHS {
				for t := range firstOf(s) {
					if !first[r.LHS][t] {
						first[r.LHS][t] = true
						changed = true
					}
				}
				if !(ag.nt[s] && nullable[s]) {
					allNull = false
					break
				}
			}
			if allNull && !nullable[r.LHS] {
				nullable[r.LHS] = true
				changed = true
			}
		}
	}
	follow["$accept"][endMark] = true
	for changed := true; changed; {
		changed = false
		for _, r := range rules {
			for i, s := range r.RHS {
				if !ag.nt[s] {
					continue
				}
				rest := true
				for _, s2 := range r.RHS[i+1:] {
					for t := range firstOf(s2) {
						if !follow[s][t] {
							follow[s][t] = true
							changed = true
						}
					}
					if !(ag.nt[s2] && nullable[s2]) {
						rest = false
						break
					}
				}
				if rest {
					for t := range follow[r.LHS] {
						if !follow[s][t] {
							follow[s][t] = true
							changed = true
						}
					}
				}
			}
		}
	}
	closure := func(items []lritem) []lritem {
		seen := map[lritem]bool{}
		var out []lritem
		var stack []lritem
		for _, it := range items {
			if !seen[it] {
				seen[it] = true
				stack = append(stack, it)
			}
		}
		for len(stack) > 0 {
			it := stack[len(stack)-1]
			stack = stack[:len(stack)-1]
			out = append(out, it)
			r := rules[it.rule]
			if it.dot < len(r.RHS) && ag.nt[r.RHS[it.dot]] {
				for ri, r2 := range rules {
					if r2.LHS == r.RHS[it.dot] {
						n := lritem{ri, 0}
						if !seen[n] {
							seen[n] = true
							stack = append(stack, n)
						}
					}
				}
			}
		}
		sort.Slice(out, func(i, j int) bool {
			if out[i].rule != out[j].rule {
				return out[i].rule < out[j].rule
			}
			return out[i].dot < out[j].dot
		})
		return out
	}
	key := func(items []lritem) string { return fmt.Sprint(items) }
	p := &SLR{g: ag}
	index := map[string]int{}
	start := closure([]lritem{{0, 0}})
	p.states = append(p.states, start)
	index[key(start)] = 0
	for si := 0; si < len(p.states); si++ {
		p.gotoT = append(p.gotoT, map[string]int{})
		p.reduce = append(p.reduce, map[string]int{})
		next := map[string][]lritem{}
		var syms []string
		for _, it := range p.states[si] {
			r := rules[it.rule]
			if it.dot < len(r.RHS) {
				s := r.RHS[it.dot]
				if _, ok := next[s]; !ok {
					syms = append(syms, s)
				}
				next[s] = append(next[s], lritem{it.rule, it.dot + 1})
			}
		}
		sort.Strings(syms)
		for _, s := range syms {
			c := closure(next[s])
			k := key(c)
			ti, ok := index[k]
			if !ok {
				ti = len(p.states)
				index[k] = ti
				p.states = append(p.states, c)
			}
			p.gotoT[si][s] = ti
		}
		for _, it := range p.states[si] {
			r := rules[it.rule]
			if it.dot == len(r.RHS) {
				for la := range follow[r.LHS] {
					if prev, ok := p.reduce[si][la]; ok && prev != it.rule {
						p.Conflicts = append(p.Conflicts, fmt.Sprintf("state %d on %s: reduce/reduce %v vs %v", si, la, rules[prev], r))
					}
					if _, sh := p.gotoT[si][la]; sh && !ag.nt[la] {
						p.Conflicts = append(p.Conflicts, fmt.Sprintf("state %d on %s: shift/reduce with %v", si, la, r))
					}
					p.reduce[si][la] = it.rule
				}
			}
		}
	}
	return p
}

// NumStates is the number of LR(0) item sets.
func (p *SLR) NumStates() int { return len(p.states) }

// Stack is an LR parse stack (state numbers).
type Stack []int

func (s Stack) Key() string { return fmt.Sprint([]int(s)) }

// Initial returns the initial stack.
func (p *SLR) Initial() Stack { return Stack{0} }

// Step feeds one terminal (or "$end"). It returns the new stack; ok=false if the input dies;
// accepted=true if the terminal was "$end" and the sentence is complete.
func (p *SLR) Step(st Stack, term string) (out Stack, ok, accepted bool) {
	s := append(Stack{}, st...)
	for guard := 0; guard < 10000; guard++ {
		top := s[len(s)-1]
		if ri, red := p.reduce[top][term]; red {
			if _, sh := p.gotoT[top][term]; !sh || p.g.nt[term] {
				if ri == 0 {
					return s, true, term == endMark
				}
				r := p.g.Rules[ri]
				s = s[:len(s)-len(r.RHS)]
				nt, has := p.gotoT[s[len(s)-1]][r.LHS]
				if !has {
					return nil, false, false
				}
				s = append(s, nt)
				continue
			}
		}
		if term == endMark {
			return nil, false, false
		}
		if nx, sh := p.gotoT[top][term]; sh {
			return append(s, nx), true, false
		}
		return nil, false, false
	}
	panic("SLR.Step: reduce loop")
}

// Accepts runs the parser over a token-kind string.
func (p *SLR) Accepts(kinds []string) bool {
	st := p.Initial()
	for _, k := range kinds {
		var ok bool
		st, ok, _ = p.Step(st, k)
		if !ok {
			return false
		}
	}
	_, ok, acc := p.Step(st, endMark)
	return ok && acc
}

// Viable tells whether the token-kind string is a viable prefix of some sentence.
func (p *SLR) Viable(kinds []string) (Stack, bool) {
	st := p.Initial()
	for _, k := range kinds {
		var ok bool
		st, ok, _ = p.Step(st, k)
		if !ok {
			return nil, false
		}
	}
	return st, true
}

// ---------------------------------------------------------------- trees

// Item is a chord or a rest as written.
type Item struct {
	Rest     bool        `json:"rest,omitempty"`
	Root     string      `json:"root,omitempty"`
	Acc      string      `json:"acc,omitempty"`
	HasSym   bool        `json:"has_symbol,omitempty"`
	Symbol   string      `json:"symbol,omitempty"`
	HasBass  bool        `json:"has_bass,omitempty"`
	BassRoot string      `json:"bass_root,omitempty"`
	BassAcc  string      `json:"bass_acc,omitempty"`
	Values   [][2]string `json:"values"`
	HasMeta  bool        `json:"has_meta,omitempty"`
	Meta     [][2]string `json:"meta,omitempty"`
}

// BuildTree is an independent recursive-descent reading of the documented chord shape:
//
//	chord := (SYLLABLE|NUMBER) [SHARP|FLAT] [SYMBOL | UNDERSCORE SYMBOL] [SLASH (SYLLABLE|NUMBER) [SHARP|FLAT]]
//	         LBRA value {COMMA value} RBRA [LCBRA pair {COMMA pair} RCBRA]
//	rest  := REST LBRA value {COMMA value} RBRA [LCBRA ... RCBRA]
//	value := NUMBER [SLASH NUMBER]     pair := METADATA EQUAL METADATA
func BuildTree(toks []Tok) ([]Item, bool) {
	i := 0
	peek := func() string {
		if i < len(toks) {
			return toks[i].Kind
		}
		return endMark
	}
	take := func(k string) (string, bool) {
		if peek() == k {
			v := toks[i].Val
			i++
			return v, true
		}
		return "", false
	}
	values := func() ([][2]string, bool) {
		if _, ok := take("LBRA"); !ok {
			return nil, false
		}
		var vs [][2]string
		for {
			n, ok := take("NUMBER")
			if !ok {
				return nil, false
			}
			d := ""
			if _, ok := take("SLASH"); ok {
				if d, ok = take("NUMBER"); !ok {
					return nil, false
				}
			}
			vs = append(vs, [2]string{n, d})
			if _, ok := take("COMMA"); !ok {
				break
			}
		}
		if _, ok := take("RBRA"); !ok {
			return nil, false
		}
		return vs, true
	}
	meta := func() ([][2]string, bool, bool) {
		if _, ok := take("LCBRA"); !ok {
			return nil, false, true
		}
		var ps [][2]string
		for {
			k, ok := take("METADATA")
			if !ok {
				return nil, true, false
			}
			if _, ok := take("EQUAL"); !ok {
				return nil, true, false
			}
			v, ok := take("METADATA")
			if !ok {
				return nil, true, false
			}
			ps = append(ps, [2]string{k, v})
			if _, ok := take("COMMA"); !ok {
				break
			}
		}
		if _, ok := take("RCBRA"); !ok {
			return nil, true, false
		}
		return ps, true, true
	}
	degree := func() (string, string, bool) {
		var root string
		if v, ok := take("SYLLABLE"); ok {
			root = v
		} else if v, ok := take("NUMBER"); ok {
			root = v
		} else {
			return "", "", false
		}
		acc := ""
		if v, ok := take("SHARP"); ok {
			acc = v
		} else if v, ok := take("FLAT"); ok {
			acc = v
		}
		return root, acc, true
	}
	var items []Item
	for i < len(toks) {
		var it Item
		if _, ok := take("REST"); ok {
			it.Rest = true
		} else {
			var ok bool
			if it.Root, it.Acc, ok = degree(); !ok {
				return nil, false
			}
			if v, ok := take("SYMBOL"); ok {
				it.HasSym, it.Symbol = true, v
			} else if _, ok := take("UNDERSCORE"); ok {
				v, ok := take("SYMBOL")
				if !ok {
					return nil, false
				}
				it.HasSym, it.Symbol = true, v
			}
			if _, ok := take("SLASH"); ok {
				if it.BassRoot, it.BassAcc, ok = degree(); !ok {
					return nil, false
				}
				it.HasBass = true
			}
		}
		var ok bool
		if it.Values, ok = values(); !ok {
			return nil, false
		}
		if it.Meta, it.HasMeta, ok = meta(); !ok {
			return nil, false
		}
		items = append(items, it)
	}
	if len(items) == 0 {
		return nil, false
	}
	return items, true
}
