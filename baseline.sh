#!/bin/bash
# The repository's own suite with the hook guard (build tag verif) OFF.
export GOFLAGS=-mod=mod GOPROXY=off
unset GOSUMDB GOTOOLCHAIN 2>/dev/null || true
cd /repo && go test -mod=mod -json -vet=off -count=1 -timeout 25m ./...
