package props

import (
	"bytes"
	"encoding/json"
	"fmt"
	"os"
	"os/exec"
	"path/filepath"
	"reflect"
	"strings"
	"sync/atomic"

	"gopkg.in/yaml.v3"

	"verif/cli"
	"verif/ev"
	"verif/mc"
	"verif/ref/chordlang"
)

// C04 — the accepted chord language is exactly the documented grammar; trees faithful.

type textCase struct {
	Text string `json:"text"`
}

func init() {
	register(&Prop{ID: "C04", Run: runC04, Replay: map[string]func(*Env, json.RawMessage){
		"text": func(e *Env, raw json.RawMessage) {
			_, p, err := loadGrammar(e.RepoDir)
			if err != nil {
				panic(err)
			}
			c04Text(e, p, decode[textCase](raw).Text, true)
		},
		"text-cli": func(e *Env, raw json.RawMessage) {
			_, p, err := loadGrammar(e.RepoDir)
			if err != nil {
				panic(err)
			}
			c04CLI(e, p, decode[textCase](raw).Text)
		},
		"goyacc": func(e *Env, raw json.RawMessage) { c04Goyacc(e) },
	}})
}

// endsInside tells in which run the text ends (for hang classification).
func endsInside(text string) string {
	toks, _, _ := chordlang.Tokenize(text)
	// inside a comment: re-tokenise with a newline appended; if the token stream is the same
	// and the text's last line has a ';' outside braces, the end is inside a comment
	trim := strings.TrimRight(text, " \t\r\n")
	if len(toks) > 0 && trim == text {
		last := toks[len(toks)-1]
		if strings.HasSuffix(text, last.Val) {
			switch last.Kind {
			case "SYMBOL":
				return "symbol"
			case "METADATA":
				return "metadata"
			}
		}
	}
	t2, _, _ := chordlang.Tokenize(text + "\nC")
	if len(t2) == len(toks)+1 && !strings.HasSuffix(text, "\n") && strings.Contains(text, ";") {
		return "comment"
	}
	return "other"
}

var c04ShapeDivergence, c04ModeDiffers int64

// c04Text is the differential of one text: lexer stream and modes, acceptance, tree.
func c04Text(e *Env, p *chordlang.SLR, text string, report bool) bool {
	e.R.Eval(1)
	fail := func(class, msg string) bool {
		if report {
			e.R.Fail(ev.Fail{Class: class, Msg: fmt.Sprintf("%q: %s", text, msg), Kind: "text", Case: textCase{text}})
		}
		return false
	}
	rt, rm, rLexErr := chordlang.Tokenize(text)
	il := implLex(text)
	if il.Hang {
		return fail("C04/hang/eof-inside-"+endsInside(text), "the lexer never terminates (polls the exhausted input forever)")
	}
	if il.Panic != "" {
		return fail("C04/crash/lexer", "lexer panics: "+il.Panic)
	}
	if !reflect.DeepEqual(il.Toks, rt) && !(len(il.Toks) == 0 && len(rt) == 0) {
		return fail("C04/tokens", fmt.Sprintf("lexer yields %v, documented tokenisation yields %v", il.Toks, rt))
	}
	if hooksOn && len(il.Modes) == len(rm) {
		// internal lexer flags vs. the reference's mode: recorded, not judged (a lexer may keep its mode
		// differently; every observable consequence shows in the token streams of the explored extensions)
		for i := range rm {
			if il.Modes[i] != rm[i] {
				atomic.AddInt64(&c04ModeDiffers, 1)
				break
			}
		}
	}
	if rLexErr && !il.Err {
		return fail("C04/lexer-error-missed", "`_` not followed by a symbol is not reported as an error")
	}
	ip := implParse(text)
	if ip.Hang {
		return fail("C04/hang/eof-inside-"+endsInside(text), "parsing never terminates")
	}
	if ip.Panic != "" {
		return fail("C04/crash/parser", "parser panics: "+ip.Panic)
	}
	want := !rLexErr && p.Accepts(kindsOf(rt))
	if ip.Accepted && !want {
		return fail("C04/accepts-non-sentence", fmt.Sprintf("accepted, but the token string %v is no sentence of chords.y", kindsOf(rt)))
	}
	if !ip.Accepted && want {
		return fail("C04/rejects-sentence", fmt.Sprintf("rejected (%s), but the token string %v is a sentence of chords.y", ip.Err, kindsOf(rt)))
	}
	if want {
		tree, ok := chordlang.BuildTree(rt)
		if !ok {
			atomic.AddInt64(&c04ShapeDivergence, 1) // chords.y accepts something the documented chord shape does not describe
			return true
		}
		if !reflect.DeepEqual(tree, ip.Tree) {
			return fail("C04/tree", fmt.Sprintf("tree %s, written %s", mustJSON(ip.Tree), mustJSON(tree)))
		}
		e.R.NonTrivial(text)
	}
	return true
}

// astYAML mirrors the YAML that `crd text parse` prints, read generically.
type yTok struct {
	Value string `yaml:"value"`
}
type yDegree struct {
	Degree     *yTok `yaml:"degree"`
	Accidental *yTok `yaml:"accidental"`
}
type yItem struct {
	Degree *yDegree `yaml:"degree"`
	Symbol *struct {
		Symbol *yTok `yaml:"symbol"`
	} `yaml:"symbol"`
	Base *struct {
		Degree *yDegree `yaml:"degree"`
	} `yaml:"base"`
	Values *struct {
		Values []struct {
			Num   *yTok `yaml:"num"`
			Denom *yTok `yaml:"denom"`
		} `yaml:"values"`
	} `yaml:"values"`
	Meta *struct {
		Data []struct {
			Key   *yTok `yaml:"key"`
			Value *yTok `yaml:"value"`
		} `yaml:"data"`
	} `yaml:"meta"`
}

func yv(t *yTok) string {
	if t == nil {
		return ""
	}
	return t.Value
}

func treeFromYAML(b []byte) ([]chordlang.Item, error) {
	var doc struct {
		List []yItem `yaml:"list"`
	}
	if err := yaml.Unmarshal(b, &doc); err != nil {
		return nil, err
	}
	var items []chordlang.Item
	for _, y := range doc.List {
		var it chordlang.Item
		if y.Degree == nil {
			it.Rest = true
		} else {
			it.Root, it.Acc = yv(y.Degree.Degree), yv(y.Degree.Accidental)
			if y.Symbol != nil {
				it.HasSym, it.Symbol = true, yv(y.Symbol.Symbol)
			}
			if y.Base != nil && y.Base.Degree != nil {
				it.HasBass, it.BassRoot, it.BassAcc = true, yv(y.Base.Degree.Degree), yv(y.Base.Degree.Accidental)
			}
		}
		if y.Values != nil {
			for _, v := range y.Values.Values {
				it.Values = append(it.Values, [2]string{yv(v.Num), yv(v.Denom)})
			}
		}
		if y.Meta != nil {
			it.HasMeta = true
			for _, d := range y.Meta.Data {
				it.Meta = append(it.Meta, [2]string{yv(d.Key), yv(d.Value)})
			}
		}
		items = append(items, it)
	}
	return items, nil
}

// c04CLI: `crd text parse` must succeed exactly on sentences, print the tree, and fail cleanly otherwise.
func c04CLI(e *Env, p *chordlang.SLR, text string) {
	if cli.TooManyHangs() {
		e.R.NotExhaustive("stopped feeding the binary after 12 reproducible hangs")
		return
	}
	e.R.Eval(1)
	rt, _, rLexErr := chordlang.Tokenize(text)
	want := !rLexErr && p.Accepts(kindsOf(rt))
	r := cli.In(text, "text", "parse")
	fail := func(class, msg string) {
		e.R.Fail(ev.Fail{Class: class, Msg: fmt.Sprintf("crd text parse on %q: %s", text, msg), Kind: "text-cli", Case: textCase{text}})
	}
	if r.TimedOut {
		fail("C04/hang/eof-inside-"+endsInside(text)+"/cli", "does not terminate")
		return
	}
	if r.Crashed() {
		fail("C04/crash/cli", firstLine(r.Stderr))
		return
	}
	if want {
		if !r.OK() {
			fail("C04/rejects-sentence/cli", "fails on a sentence: "+firstLine(r.Stderr))
			return
		}
		tree, ok := chordlang.BuildTree(rt)
		if !ok {
			return
		}
		got, err := treeFromYAML(r.Stdout)
		if err != nil {
			fail("C04/tree/cli", "stdout is not YAML: "+err.Error())
			return
		}
		if !reflect.DeepEqual(tree, got) {
			fail("C04/tree/cli", fmt.Sprintf("printed tree %s, written %s", mustJSON(got), mustJSON(tree)))
		}
		return
	}
	if why := failureShape(r); why != "" {
		fail("C04/accepts-non-sentence/cli", "a non-sentence is not refused cleanly: "+why)
	}
}

// c04Goyacc regenerates the parser from chords.y with the committed command line and
// compares it with the shipped file (supporting step, not enumeration).
func c04Goyacc(e *Env) {
	e.R.Eval(1)
	dir, err := os.MkdirTemp(e.Scratch, "goyacc")
	if err != nil {
		panic(err)
	}
	defer os.RemoveAll(dir)
	src, err := os.ReadFile(filepath.Join(e.RepoDir, "input", "ast", "chords.y"))
	if err != nil {
		panic(err)
	}
	if err := os.WriteFile(filepath.Join(dir, "chords.y"), src, 0o644); err != nil {
		panic(err)
	}
	cmd := exec.Command("go", "-C", e.RepoDir, "tool", "goyacc", "-o", filepath.Join(dir, "chords_goyacc_generated.go"), "-v", filepath.Join(dir, "chords_goyacc_generated.output"), filepath.Join(dir, "chords.y"))
	cmd.Env = append(os.Environ(), "GOFLAGS=-mod=mod", "GOPROXY=off")
	out, err := cmd.CombinedOutput()
	if err != nil {
		e.R.Note("goyacc regeneration unavailable: " + firstLine(out) + " — clause 'the parser shipped is the one goyacc generates' not supported in this run")
		e.R.NotExhaustive("goyacc could not be run: " + err.Error())
		return
	}
	gen, err := os.ReadFile(filepath.Join(dir, "chords_goyacc_generated.go"))
	if err != nil {
		panic(err)
	}
	shipped, err := os.ReadFile(filepath.Join(e.RepoDir, "input", "ast", "chords_goyacc_generated.go"))
	if err != nil {
		panic(err)
	}
	norm := func(b []byte) []byte {
		// the header comment and //line directives mention the paths given on the command line
		var out [][]byte
		for _, l := range bytes.Split(b, []byte("\n")) {
			if bytes.HasPrefix(l, []byte("//line ")) || bytes.HasPrefix(l, []byte("// Code generated")) {
				continue
			}
			out = append(out, l)
		}
		return bytes.Join(out, []byte("\n"))
	}
	if !bytes.Equal(norm(gen), norm(shipped)) {
		e.R.Fail(ev.Fail{Class: "C04/generated-parser-stale", Msg: "input/ast/chords_goyacc_generated.go is not what goyacc generates from input/ast/chords.y", Kind: "goyacc", Case: "regenerate"})
	}
	if strings.Contains(string(out), "conflict") {
		e.R.Note("goyacc reports: " + firstLine(out))
	}
}

var c04Alphabet = []string{"C", "R", "2", "0", "b", "#", "m", "_", "/", "[", "]", ",", "{", "}", "=", " ", ";", "\n", "\r"}

func runC04(e *Env) {
	e.R.Rule = "every string over a 19-character alphabet (one representative per lexer case, both mode switches, both trivia kinds) up to the stated length, every extension of every reference-viable prefix up to a larger length, and every edge of the (LR stack, lexer mode) state graph of chords.y is run through the real lexer and parser and compared with the documented tokeniser + SLR(1) recogniser of chords.y (cross-checked against an Earley recogniser) + independent tree builder; distinct = distinct string; non-trivial = accepted sentence whose tree was compared"
	e.R.Assume("reference tokenisation as documented in DESIGN.md §3.2; acceptance oracle derived from input/ast/chords.y on disk; the generated parser is bound to chords.y by regeneration (supporting step); the LALR stack is not observed, only token stream, lexer mode (hook), verdict and tree")
	g, p, err := loadGrammar(e.RepoDir)
	if err != nil {
		panic("cannot read chords.y: " + err.Error())
	}
	if len(p.Conflicts) > 0 {
		e.R.Note(fmt.Sprintf("chords.y is not SLR(1) (%d conflicts, e.g. %s): acceptance falls back to Earley", len(p.Conflicts), p.Conflicts[0]))
		panic("chords.y not SLR(1): " + p.Conflicts[0])
	}
	e.R.Note(fmt.Sprintf("chords.y: %d rules, %d tokens, %d LR(0) item sets, SLR(1) conflict-free", len(g.Rules), len(g.Terms), p.NumStates()))
	A := c04Alphabet
	n := len(A)

	// (1) unpruned sweep
	maxLen := 5
	if e.Thorough {
		maxLen = 6
	}
	total := 0
	pow := 1
	var offs []int
	for l := 1; l <= maxLen; l++ {
		pow *= n
		offs = append(offs, total)
		total += pow
	}
	var accepted int64
	mc.ParFor(total, func(i int) {
		l := 0
		for l+1 < len(offs) && i >= offs[l+1] {
			l++
		}
		x := i - offs[l]
		var b strings.Builder
		for j := 0; j <= l; j++ {
			b.WriteString(A[x%n])
			x /= n
		}
		s := b.String()
		if !c04Text(e, p, s, false) {
			c04Text(e, p, s, true)
		}
		if l < 4 {
			rt, _, le := chordlang.Tokenize(s)
			k := kindsOf(rt)
			if a, b := p.Accepts(k), g.Earley(k); a != b {
				panic(fmt.Sprintf("reference recognisers disagree on %v (lexErr %v): SLR %v Earley %v", k, le, a, b))
			}
		}
	})
	_ = accepted
	e.R.AddPart(ev.Part{Name: "all-strings", Enumerated: fmt.Sprintf("every string of length 1..%d over the 19-character alphabet %q", maxLen, strings.Join(A, "")), Executions: int64(total), Exhaustive: true})

	// (1b) unusual characters: tab, CR, non-ASCII letters, Unicode accidentals, NUL, invalid UTF-8
	exotic := []string{"C", "2", "m", "_", "/", "[", "]", "{", "}", "=", "\t", "\r", "é", "♭", "\x00", "\xff", "　", ";", "\n", "１"}
	exLen := 3
	if e.Thorough {
		exLen = 4
	}
	var exStrs []string
	var exGen func(s string, n int)
	exGen = func(s string, n int) {
		if s != "" {
			exStrs = append(exStrs, s)
		}
		if n == 0 {
			return
		}
		for _, a := range exotic {
			exGen(s+a, n-1)
		}
	}
	exGen("", exLen)
	for _, s := range []string{"Cm\t[2]", "C_m\r[2]", "Cé[2]", "C[2]{é=♭}", "C♭m/E♭[2]", "C\x00[2]", "C[2]　R[2]", "C[2]\r\nR[2]"} {
		exStrs = append(exStrs, s)
	}
	mc.ParFor(len(exStrs), func(i int) {
		if !c04Text(e, p, exStrs[i], false) {
			c04Text(e, p, exStrs[i], true)
		}
	})
	e.R.AddPart(ev.Part{Name: "unusual-characters", Enumerated: fmt.Sprintf("every string of length 1..%d over 20 symbols including tab, CR, é, ♭, ideographic space, NUL, an invalid UTF-8 byte, a fullwidth digit and the comment delimiters, plus 8 longer texts", exLen), Executions: int64(len(exStrs)), Exhaustive: true})

	// (1c) one foreign character anywhere: every position of a set of sentences x every
	// representative of the Unicode classes a lexer predicate could be written with
	// (unicode.IsDigit / IsLetter / IsSpace / IsUpper / IsPunct / IsSymbol ...), inserted or
	// replacing the character there
	foreign := []string{"\t", "\r", "\v", "\f", "\x00", "\x7f", "\x1b", "\xff", "\xc3", "\xef\xbb\xbf", "\u0085", "\u00a0", "\u2028", "\u3000", "\u200b",
		"é", "É", "ß", "中", "１", "٢", "²", "Ⅷ", "½", "♭", "♯", "𝄪", "＃", "ｂ", "－", "‐", "＿", "／", "［", "］", "｛", "｝", "＝", "，", "；", "\u0301", "😀", "Ｃ", "ｍ", "Ｒ"}
	sentences := []string{"C[1]", "Cm7/E[1,1/2]{key=A,txt=a b}", "1b_7/3#[2] ;c d\nR[1]", "C[1] ;x\nD[2]\n", "G_7[4]{bpm=90}\n", "R[1/2] 5[2]"}
	var fStrs []string
	for _, snt := range sentences {
		rs := []rune(snt)
		for pos := 0; pos <= len(rs); pos++ {
			for _, f := range foreign {
				fStrs = append(fStrs, string(rs[:pos])+f+string(rs[pos:]))
				if pos < len(rs) {
					fStrs = append(fStrs, string(rs[:pos])+f+string(rs[pos+1:]))
				}
			}
		}
	}
	mc.ParFor(len(fStrs), func(i int) {
		if !c04Text(e, p, fStrs[i], false) {
			c04Text(e, p, fStrs[i], true)
		}
	})
	e.R.AddPart(ev.Part{Name: "one-foreign-character", Enumerated: fmt.Sprintf("%d sentences (both notations, comment, metadata, `_`, bass, several durations) x every position x {insert, replace} x %d characters: one representative per Unicode class a lexer predicate could be written with (Nd/No/Nl digits, upper/lower/other letters, Zs/Zl and control spaces, fullwidth forms of every punctuation of the language, combining mark, 4-byte character, BOM, truncated and invalid UTF-8)", len(sentences), len(foreign)), Executions: int64(len(fStrs)), Exhaustive: true})

	// (2) pruned deep sweep: every reference-viable prefix extended by every character, dead ones by two more
	deep := 6
	if e.Thorough {
		deep = 7
	}
	if v := os.Getenv("VERIF_C04_DEEP"); v != "" {
		fmt.Sscan(v, &deep)
	}
	var deepCount int64
	viable := func(s string) bool {
		rt, _, le := chordlang.Tokenize(s)
		if le {
			return false
		}
		k := kindsOf(rt)
		if len(k) > 0 {
			k = k[:len(k)-1] // the last token may still be growing
		}
		_, ok := p.Viable(k)
		return ok
	}
	var walk func(prefix string, dead int)
	walk = func(prefix string, dead int) {
		for _, c := range A {
			s := prefix + c
			atomic.AddInt64(&deepCount, 1)
			if !c04Text(e, p, s, false) {
				c04Text(e, p, s, true)
			}
			if len([]rune(s)) >= deep {
				continue
			}
			if viable(s) {
				walk(s, 0)
			}
		}
	}
	// parallelise over the viable prefixes of length 3
	var seeds []string
	var collect func(prefix string)
	collect = func(prefix string) {
		if len([]rune(prefix)) == 3 {
			seeds = append(seeds, prefix)
			return
		}
		for _, c := range A {
			if viable(prefix + c) {
				collect(prefix + c)
			}
		}
	}
	collect("")
	mc.ParFor(len(seeds), func(i int) { walk(seeds[i], 0) })
	e.R.AddPart(ev.Part{Name: "viable-prefix-sweep", Enumerated: fmt.Sprintf("depth-first over all prefixes the reference still considers viable, each extended by every character, up to length %d (garbage after the reference has died is covered by the all-strings sweep up to length %d and by the state graph)", deep, maxLen), Executions: deepCount, Exhaustive: true, Note: fmt.Sprintf("%d viable seeds of length 3", len(seeds))})

	c04Graph(e, g, p)
	c04Tokens(e, g, p)

	// sequences of complete chord shapes: state that leaks from one list element into a later one
	// (a semantic action returning a stale value) needs a particular neighbour pattern
	shapes := []string{"C[2]", "Db[2]", "E#m[2]", "Fdim/G[2]", "A/Bb[2]", "B_2/C#[2,2/2]", "R[2]", "D[2]{m=m}", "2b[2]", "2m/2#[2]{m=m,n=n}"}
	seqLen := 3
	if e.Thorough {
		seqLen = 4
	}
	var seqs []string
	var sgen func(parts []string)
	sgen = func(parts []string) {
		if len(parts) >= 2 {
			seqs = append(seqs, strings.Join(parts, " "))
		}
		if len(parts) == seqLen {
			return
		}
		for _, sh := range shapes {
			sgen(append(parts, sh))
		}
	}
	sgen(nil)
	mc.ParFor(len(seqs), func(i int) {
		if !c04Text(e, p, seqs[i], false) {
			c04Text(e, p, seqs[i], true)
		}
		e.R.Trace(1)
	})
	e.R.AddPart(ev.Part{Name: "chord-shape-sequences", Enumerated: fmt.Sprintf("every sequence of 2..%d complete chords over 10 chord shapes (plain, accidental, symbol, bass with/without accidental, `_` symbol, two durations, rest, metadata, degree notation): tree compared element by element", seqLen), Executions: int64(len(seqs)), Exhaustive: true})

	// pumped loops
	pump := func(k int) []string {
		chords := strings.Repeat("C[2] ", k)
		vals := "C[2" + strings.Repeat(",2/2", k) + "]"
		meta := "R[2]{m=m" + strings.Repeat(",m=m", k) + "}"
		return []string{chords + "R[2]", vals, meta, vals + " " + meta + " " + chords + "2b_m/C#[2]"}
	}
	pc := 0
	for _, k := range []int{0, 1, 2, 50, 300} {
		for _, s := range pump(k) {
			c04Text(e, p, s, true)
			e.R.Trace(1)
			pc++
		}
	}
	e.R.AddPart(ev.Part{Name: "pumped-loops", Enumerated: "each left-recursive loop (chord list, values, metadata) pumped 0, 1, 2, 50, 300 times", Executions: int64(pc), Exhaustive: true})

	// CLI: every string of length <= 3 and the accepted strings of the sweeps up to a cap through `crd text parse`
	var cliTexts []string
	for l := 1; l <= 3; l++ {
		cnt := 1
		for j := 0; j < l; j++ {
			cnt *= n
		}
		for x0 := 0; x0 < cnt; x0++ {
			x := x0
			var b strings.Builder
			for j := 0; j < l; j++ {
				b.WriteString(A[x%n])
				x /= n
			}
			if l < 3 || e.Thorough || x0%7 == 0 {
				cliTexts = append(cliTexts, b.String())
			}
		}
	}
	// a large input through the binary: nothing may be cut off
	{
		const n = 30000
		big := strings.Repeat("1[2] ", n)
		r := cli.In(big, "text", "conv", "degree")
		e.R.Eval(2)
		if got := strings.Count(string(r.Stdout), "- chord:"); !r.OK() || got != n {
			e.R.Fail(ev.Fail{Class: "C04/suffix-dropped/cli-large-input", Msg: fmt.Sprintf("crd text conv degree on %d chords (%d bytes): exit %d, %d chords in the output", n, len(big), r.Exit, got), Kind: "text-cli", Case: textCase{"<" + fmt.Sprint(n) + " x '1[2] '>"}})
		}
		r2 := cli.In(big+"]", "text", "parse")
		if why := failureShape(r2); why != "" {
			e.R.Fail(ev.Fail{Class: "C04/accepts-non-sentence/cli-large-input", Msg: fmt.Sprintf("a stray ] after %d bytes of valid text is not refused: %s", len(big), why), Kind: "text-cli", Case: textCase{"<" + fmt.Sprint(n) + " x '1[2] '>]"}})
		}
	}
	cliTexts = append(cliTexts, "C[2]", "R[2]", "Cm/C[2,2/2]{m=m}", "2b_2/2#[2]{a=b,c=d} R[2]", "C[2] ;x\nR[2]", "C[2]]", "C[2]{", "C[2", "C[2] C")
	mc.ParFor(len(cliTexts), func(i int) {
		c04CLI(e, p, cliTexts[i])
		e.R.Trace(1)
	})
	e.R.AddPart(ev.Part{Name: "cli-text-parse", Enumerated: "real binary `crd text parse`: strings of length <= 3 (all in thorough, all of length <= 2 and every 7th of length 3 in quick) plus 9 longer sentences and near-sentences", Executions: int64(len(cliTexts)), Exhaustive: true})

	c04Goyacc(e)
	e.R.AddPart(ev.Part{Name: "goyacc-regeneration", Enumerated: "supporting step (not enumeration): go tool goyacc on the working-tree chords.y, compared with chords_goyacc_generated.go modulo //line and header comments", Executions: 1, Exhaustive: true})
	if c04ModeDiffers > 0 {
		e.R.Note(fmt.Sprintf("on %d texts the lexer's internal mode flags differ from the reference's mode after some token (informational)", c04ModeDiffers))
	}
	if c04ShapeDivergence > 0 {
		e.R.Note(fmt.Sprintf("%d accepted sentences are outside the documented chord shape (tree comparison skipped for them)", c04ShapeDivergence))
	}
	e.R.Sample(map[string]any{"text": "2b_m/C#[2,2/2]{m=m}", "tokens": "NUMBER FLAT UNDERSCORE SYMBOL SLASH SYLLABLE SHARP LBRA NUMBER COMMA NUMBER SLASH NUMBER RBRA LCBRA METADATA EQUAL METADATA RCBRA", "verdict": "accept"})
	e.R.Sample(map[string]any{"text": "C[2]{m=m", "verdict": "reject (cut inside the metadata block), must terminate"})
}
