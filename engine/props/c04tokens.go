package props

import (
	"fmt"
	"strings"

	"verif/ev"
	"verif/mc"
	"verif/ref/chordlang"
)

// Token-level enumeration: every viable token-kind prefix of chords.y up to a length
// bound (depth-first with the SLR automaton), each complete sentence rendered with
// position-dependent token texts and run through the implementation; every viable prefix
// extended by every terminal that kills it must be rejected.

var tokText = map[string][]string{
	"SYLLABLE": {"C", "D", "E", "F", "G", "A", "B"}, "NUMBER": {"2", "0", "3", "00", "10", "4", "007"}, "SYMBOL": {"m", "m7", "dim", "sus4"},
	"METADATA": {"k", "v w", "bpm", "1/2"}, "SHARP": {"#"}, "FLAT": {"b"}, "SLASH": {"/"}, "LBRA": {"["}, "RBRA": {"]"}, "COMMA": {","},
	"REST": {"R"}, "UNDERSCORE": {"_"}, "LCBRA": {"{"}, "RCBRA": {"}"}, "EQUAL": {"="},
}

// renderKinds writes a kind sequence as text: single spaces between tokens outside
// braces, nothing inside braces. ok=false if the documented tokeniser does not read the
// text back as the same kinds (the sequence cannot be written down).
func renderKinds(kinds []string, compact bool) (string, bool) {
	var b strings.Builder
	inBraces := false
	for i, k := range kinds {
		ts, ok := tokText[k]
		if !ok {
			return "", false
		}
		if i > 0 && !inBraces && !compact {
			b.WriteByte(' ')
		}
		b.WriteString(ts[i%len(ts)])
		if k == "LCBRA" {
			inBraces = true
		}
		if k == "RCBRA" {
			inBraces = false
		}
	}
	s := b.String()
	rt, _, le := chordlang.Tokenize(s)
	if le && (len(kinds) == 0 || kinds[len(kinds)-1] != "UNDERSCORE") {
		return s, false
	}
	got := kindsOf(rt)
	if len(got) != len(kinds) {
		return s, false
	}
	for i := range got {
		if got[i] != kinds[i] {
			return s, false
		}
	}
	return s, true
}

// enumSentences calls visit for every viable prefix (accepting or not) up to maxTok tokens.
func enumViable(p *chordlang.SLR, terms []string, maxTok int, visit func(kinds []string, accepting bool)) {
	var rec func(st chordlang.Stack, kinds []string)
	rec = func(st chordlang.Stack, kinds []string) {
		_, ok, acc := p.Step(st, "$end")
		visit(kinds, ok && acc)
		if len(kinds) == maxTok {
			return
		}
		for _, t := range terms {
			if nst, ok, _ := p.Step(st, t); ok {
				rec(nst, append(kinds, t))
			}
		}
	}
	rec(p.Initial(), nil)
}

func c04Tokens(e *Env, g *chordlang.Grammar, p *chordlang.SLR) {
	maxTok := 11
	if e.Thorough {
		maxTok = 14
	}
	var sentences, negatives []string
	var viableCount, unrenderable int
	enumViable(p, g.Terms, maxTok, func(kinds []string, acc bool) {
		viableCount++
		if acc {
			for _, compact := range []bool{false, true} {
				if s, ok := renderKinds(kinds, compact); ok {
					sentences = append(sentences, s)
				} else if !compact {
					unrenderable++
				}
			}
		}
		if len(kinds) < 8 {
			for _, t := range g.Terms {
				ext := append(append([]string{}, kinds...), t)
				if _, ok := p.Viable(ext); ok {
					continue
				}
				if s, ok := renderKinds(ext, false); ok {
					negatives = append(negatives, s)
					// and with a plausible continuation, so that "no suffix is silently dropped"
					negatives = append(negatives, s+" C[2]")
				}
			}
		}
	})
	all := append(append([]string{}, sentences...), negatives...)
	mc.ParFor(len(all), func(i int) {
		if !c04Text(e, p, all[i], false) {
			c04Text(e, p, all[i], true)
		}
		e.R.Trace(1)
	})
	e.R.AddPart(ev.Part{Name: "token-level-sentences", Enumerated: fmt.Sprintf("every viable token-kind prefix of chords.y up to %d tokens (%d prefixes, SLR automaton, depth-first); every complete sentence rendered spaced and compact with position-dependent token texts (%d texts); every viable prefix of < 8 tokens extended by every killing terminal, alone and followed by a valid chord (%d texts)", maxTok, viableCount, len(sentences), len(negatives)), Executions: int64(len(all)), Exhaustive: true, Note: fmt.Sprintf("%d sentences cannot be written down (unused terminal SEMICOLON etc.)", unrenderable)})
	if len(sentences) > 0 {
		e.R.Sample(map[string]any{"part": "token-level-sentences", "text": sentences[len(sentences)/2]})
	}
}
