package props

import (
	"fmt"
	"strings"

	"github.com/berquerant/crd/astconv"
	"github.com/berquerant/crd/input"
	"github.com/berquerant/crd/input/ast"
	"github.com/berquerant/crd/op"
	"gopkg.in/yaml.v3"

	"verif/cli"
	"verif/ref/theory"
)

// implConvLib composes the library packages the way cmd/text.go does (in-process).
// mode is "degree" or "syllable"; key "" means no --key flag.
func implConvLib(text, mode, key string) (out []byte, err error) {
	defer func() {
		if r := recover(); r != nil {
			if _, ok := r.(hangPanic); ok {
				err = fmt.Errorf("hang: lexer polls the exhausted input forever")
				return
			}
			err = panicError{r}
		}
	}()
	var converter astconv.Converter
	if mode == "syllable" {
		k := op.MustParseKey("C")
		if key != "" {
			k, err = op.ParseKey(key)
			if err != nil {
				return nil, err
			}
		}
		scale, err := op.NewScale(k)
		if err != nil {
			return nil, err
		}
		converter = astconv.NewSyllableASTConverter(scale)
	} else {
		converter = astconv.NewDegreeASTConverter()
	}
	lex := ast.NewLexer(&eofPollReader{r: strings.NewReader(text)})
	_ = ast.Parse(lex)
	if err := lex.Err(); err != nil {
		return nil, err
	}
	tree := lex.Result
	if tree == nil {
		return nil, fmt.Errorf("no tree")
	}
	if _, err := astconv.NewASTClassifier().Classify(tree); err != nil {
		return nil, err
	}
	result := make([]*input.Instance, len(tree.List))
	for i, x := range tree.List {
		y, err := converter.Convert(x)
		if err != nil {
			return nil, fmt.Errorf("%w: ChordOrRest at index %d", err, i)
		}
		result[i] = y
	}
	return yaml.Marshal(result)
}

// convResult is one `text conv` execution on either path.
type convResult struct {
	Out     []byte
	Err     string
	Crashed bool
	Hang    bool
	Shape   string // failure-shape complaint for a failing CLI run ("" = clean failure)
}

func runConv(path, text, mode, key string) convResult {
	if path == "cli" {
		args := []string{"text", "conv", mode}
		if key != "" {
			args = append(args, "--key", key)
		}
		r := cli.In(text, args...)
		if r.OK() {
			return convResult{Out: r.Stdout}
		}
		return convResult{Err: firstLine(r.Stderr), Crashed: r.Crashed(), Hang: r.TimedOut, Shape: failureShape(r)}
	}
	b, err := implConvLib(text, mode, key)
	if err != nil {
		return convResult{Err: err.Error(), Crashed: isPanic(err), Hang: strings.HasPrefix(err.Error(), "hang:")}
	}
	return convResult{Out: b}
}

// yInst is an instances document read generically (never into crd's own types).
type yInst struct {
	Chord *struct {
		Degree string  `yaml:"degree"`
		Name   string  `yaml:"name"`
		Base   *string `yaml:"base"`
	} `yaml:"chord"`
	Values   []string          `yaml:"values"`
	BPM      *uint64           `yaml:"bpm"`
	Velocity *string           `yaml:"velocity"`
	Meter    *string           `yaml:"meter"`
	Key      *string           `yaml:"key"`
	Meta     map[string]string `yaml:"meta"`
}

func readInstances(b []byte) ([]yInst, error) {
	var r []yInst
	if err := yaml.Unmarshal(b, &r); err != nil {
		return nil, err
	}
	return r, nil
}

// noteSpellings lists the 21 spellings letter x {natural, sharp, flat}.
func noteSpellings() []theory.Note {
	var r []theory.Note
	for l := 0; l < 7; l++ {
		for _, a := range []int{0, 1, -1} {
			r = append(r, theory.Note{Letter: l, Acc: a})
		}
	}
	return r
}
