package props

import (
	"encoding/json"
	"fmt"
	"sort"
	"strings"

	"gopkg.in/yaml.v3"

	"verif/cli"
	"verif/ev"
	"verif/mc"
	"verif/ref/chordlang"
	"verif/ref/smf"
	"verif/ref/theory"
)

// C17 — the diatonic chords crd reports for a key are playable and stay inside that key.

type c17Case struct {
	Key string `json:"key"`
}

func init() {
	register(&Prop{ID: "C17", Run: runC17, Replay: map[string]func(*Env, json.RawMessage){
		"key": func(e *Env, raw json.RawMessage) { c17Key(e, decode[c17Case](raw).Key) },
	}})
}

var (
	c17Pat           = map[string][]int{"maj": {0, 4, 7}, "min": {0, 3, 7}, "dim": {0, 3, 6}, "maj7": {0, 4, 7, 11}, "m7": {0, 3, 7, 10}, "7": {0, 4, 7, 10}, "m7b5": {0, 3, 6, 10}}
	c17MajorTriads   = []string{"maj", "min", "min", "maj", "maj", "min", "dim"}
	c17MajorSevenths = []string{"maj7", "m7", "m7", "maj7", "7", "m7", "m7b5"}
)

func rotate(s []string, n int) []string { return append(append([]string{}, s[n:]...), s[:n]...) }

// c17Play converts a chord text in key K and plays it; returns per chord the sounded keys.
func c17Play(key, text string) ([][]int, string) {
	cv := cli.In(text, "text", "conv", "syllable", "--key", key)
	if !cv.OK() {
		return nil, "text conv syllable refuses: " + firstLine(cv.Stderr)
	}
	w := cli.Run(cli.Opt{Stdin: cv.Stdout}, "write", "--key", key)
	if !w.OK() {
		return nil, "write refuses: " + firstLine(w.Stderr)
	}
	f, err := smf.Parse(w.Stdout)
	if err != nil {
		return nil, "not a readable SMF: " + err.Error()
	}
	_, groups := noteOnGroups(f)
	return groups, ""
}

func c17Key(e *Env, key string) {
	k, _ := theory.ParseKey(key)
	c := c17Case{key}
	fail := func(class, msg string) {
		e.R.Fail(ev.Fail{Class: class, Msg: fmt.Sprintf("key %s: %s", key, msg), Kind: "key", Case: c})
	}
	e.R.Eval(1)
	r := cli.In("", "info", "key", "describe", "--key", key)
	if !r.OK() {
		fail("C17/describe-fails", firstLine(r.Stderr))
		return
	}
	var d struct {
		Diatonic struct {
			Triads   []string `yaml:"triads"`
			Sevenths []string `yaml:"sevenths"`
		} `yaml:"diatonic"`
	}
	if err := yaml.Unmarshal(r.Stdout, &d); err != nil {
		fail("C17/describe-output", err.Error())
		return
	}
	// what is reported must not depend on the run (a spelling picked from a map would)
	for i := 0; i < 5; i++ {
		r2 := cli.In("", "info", "key", "describe", "--key", key)
		e.R.Eval(1)
		if !r2.OK() || string(r2.Stdout) != string(r.Stdout) {
			fail("C17/describe-varies", fmt.Sprintf("run %d reports something else than the first run: %s", i+2, describeDiff(r.Stdout, r2.Stdout)))
			return
		}
	}
	if len(d.Diatonic.Triads) != 7 || len(d.Diatonic.Sevenths) != 7 {
		fail("C17/chord-count", fmt.Sprintf("%d triads and %d sevenths listed", len(d.Diatonic.Triads), len(d.Diatonic.Sevenths)))
		return
	}
	scale := k.Scale()
	scalePC := map[int]bool{}
	for _, n := range scale {
		scalePC[n.PC()] = true
	}
	tri, sev := c17MajorTriads, c17MajorSevenths
	if k.Minor {
		tri, sev = rotate(tri, 5), rotate(sev, 5)
	}
	all := append(append([]string{}, d.Diatonic.Triads...), d.Diatonic.Sevenths...)
	wantQ := append(append([]string{}, tri...), sev...)
	// notation: each string lexes and parses as one chord on the right scale note
	for i, s := range all {
		rt, _, le := chordlang.Tokenize(s + "[1]")
		tree, ok := chordlang.BuildTree(rt)
		if le || !ok || len(tree) != 1 || tree[0].Rest {
			fail("C17/not-chord-notation", fmt.Sprintf("%q is not one chord in crd's notation", s))
			return
		}
		root := tree[0].Root + strings.NewReplacer("♯", "#", "♭", "b").Replace(tree[0].Acc)
		if want := scale[i%7].String(); root != want {
			fail("C17/wrong-scale-note", fmt.Sprintf("chord %d %q stands on %s, the scale note is %s", i, s, root, want))
			return
		}
	}
	check := func(i int, sounded []int, how string) bool {
		rootPC := scale[i%7].PC()
		rel := map[int]bool{}
		for _, p := range sounded {
			rel[((p-rootPC)%12+12)%12] = true
			if !scalePC[((p%12)+12)%12] {
				fail("C17/leaves-the-key", fmt.Sprintf("chord %q (%s) sounds key %d, which is not a note of the scale", all[i], how, p))
				return false
			}
		}
		var got []int
		for x := range rel {
			got = append(got, x)
		}
		sort.Ints(got)
		if !eqInts(got, c17Pat[wantQ[i]]) {
			fail("C17/wrong-quality", fmt.Sprintf("chord %d %q (%s) sounds intervals %v above its root, the harmonisation requires %s %v", i, all[i], how, got, wantQ[i], c17Pat[wantQ[i]]))
			return false
		}
		return true
	}
	// batched: all 14 in one text
	var b strings.Builder
	for _, s := range all {
		b.WriteString(s + "[1] ")
	}
	groups, msg := c17Play(key, b.String())
	e.R.Eval(1)
	if msg != "" {
		fail("C17/not-playable", "the 14 chords in one text: "+msg)
	} else if len(groups) != 14 {
		fail("C17/not-playable", fmt.Sprintf("14 chords written, %d sounded", len(groups)))
	} else {
		for i := range all {
			if !check(i, groups[i], "batched") {
				break
			}
		}
	}
	// one by one
	for i, s := range all {
		groups, msg := c17Play(key, s+"[1]")
		e.R.Eval(1)
		e.R.Transition(1)
		if msg != "" {
			fail("C17/not-playable", fmt.Sprintf("chord %q alone: %s", s, msg))
			return
		}
		if len(groups) != 1 {
			fail("C17/not-playable", fmt.Sprintf("chord %q alone: %d chords sounded", s, len(groups)))
			return
		}
		if !check(i, groups[0], "alone") {
			return
		}
		e.R.NonTrivial(key + "/" + s)
		e.R.Trace(1)
		e.R.Outcome(fmt.Sprint(groups[0]))
	}
}

func runC17(e *Env) {
	e.R.Rule = "complete: 28 keys x 14 chords printed by `info key describe` (six runs per key, all alike), each checked as notation, then fed through `text conv syllable --key K | write --key K` (all 14 in one text, and one by one) and decoded; distinct = (key, chord); non-trivial = the chord was played and its sounded intervals compared"
	e.R.Assume("reference: scale and harmonisation patterns from ref/theory (major: maj min min maj maj min dim / maj7 m7 m7 maj7 7 m7 m7b5; natural minor = rotation by 5)")
	keys := theory.SupportedKeyNames
	mc.ParFor(len(keys), func(i int) {
		c17Key(e, keys[i])
		e.R.State("key:" + keys[i])
	})
	e.R.AddPart(ev.Part{Name: "diatonic-chords", Enumerated: "28 keys x 14 chords through the whole pipeline with the real binary", Executions: int64(28 * 15), States: 28, Transitions: 28 * 14, Exhaustive: true})
	e.R.Sample(map[string]any{"key": "Ebm", "chord": "Fm7b5", "oracle": "root F (2nd scale note), sounded intervals {0,3,6,10}, all pitch classes in {Eb,F,Gb,Ab,Bb,Cb,Db}"})
}
