#!/bin/bash
# For each fix: commit, undo it alone on top of HEAD in a lane and run the check(s) of its property.
export GOFLAGS=-mod=mod GOPROXY=off
LOG=/var/tmp/reverts.log; : > $LOG
lane() {
  i=$1; L=/var/tmp/lane-r$i; /var/tmp/mklane.sh r$i >/dev/null
  R=$L/repo; V=$L/verif
  awk "NR % 3 == $i" /var/tmp/fixes.txt  # lines "<commit>|<properties>|<subject>", from known_findings.json and git log | while IFS='|' read h props subj; do
    cd $R; git checkout -q -- .; git clean -fdq
    if ! git show $h | git apply -R --3way >/dev/null 2>&1; then
      if [ -n "$(git status --short | grep '^UU')" ]; then echo "$h CONFLICT (later fixes changed the same lines) :: $subj" >> $LOG; git reset -q --hard; continue; fi
    fi
    git reset -q 2>/dev/null
    if ! go build ./... >/dev/null 2>&1; then echo "$h NOBUILD :: $subj" >> $LOG; git checkout -q -- .; continue; fi
    T=pass; go test -vet=off -count=1 ./... >/dev/null 2>&1 || T=fail
    res=""
    for c in $props; do
      (cd $V && VERIF_REPO=$R timeout 1500 ./check $c quick > $L/$h.$c.log 2>&1); rc=$?
      res="$res $c=$rc"
    done
    echo "$h tests=$T$res :: $subj" >> $LOG
    git checkout -q -- .; git clean -fdq
  done
  [ -c /dev/full ] || { rm -f /dev/full; mknod -m 666 /dev/full c 1 7; }
}
for i in 0 1 2; do lane $i & done; wait; echo DONE >> $LOG
