//go:build !verif

package props

import (
	"github.com/berquerant/crd/input/ast"

	"verif/ref/chordlang"
)

const hooksOn = false

func lexMode(lex *ast.Lexer) (chordlang.Mode, bool) { return chordlang.Mode{}, false }
