package props

import (
	"fmt"
	"sort"
	"verif/cli"

	refplay "verif/ref/play"
	"verif/ref/smf"
	"verif/ref/theory"
	"verif/ref/timing"
)

// playCase is one `crd write` execution: a document, a configuration and the path taken.
type playCase struct {
	Insts []refplay.Inst `json:"instances"`
	Cfg   writeCfg       `json:"cfg"`
	Path  string         `json:"path"` // lib | cli
	Doc   string         `json:"yaml,omitempty"`
	// ChordText: with path "text-cli" the piece is given as chord text and goes through
	// `crd text conv degree | crd write`; Insts is what that text means
	ChordText string `json:"chord_text,omitempty"`
	Shell     string `json:"shell,omitempty"`
}

func (c *playCase) fill() {
	c.Doc = refplay.YAML(c.Insts)
	c.Shell = fmt.Sprintf("printf '%%s' \"$YAML\" | crd write %v | xxd   # YAML = the yaml field", c.Cfg.args())
}

// writeResult is what one write execution showed.
type writeResult struct {
	Bytes   []byte
	Err     string // non-empty: the command refused / failed
	Crashed bool   // panic, fatal error, signal
	Hang    bool
	Exit    int
	Stdout  int // bytes on stdout when failing (CLI)
}

func runWrite(path, doc string, cfg writeCfg) writeResult {
	if path == "text-cli" {
		cv := cli.In(doc, "text", "conv", "degree")
		if !cv.OK() {
			return writeResult{Err: "text conv degree: " + firstLine(cv.Stderr), Crashed: cv.Crashed(), Hang: cv.TimedOut, Exit: cv.Exit, Stdout: len(cv.Stdout)}
		}
		doc, path = string(cv.Stdout), "cli"
	}
	if path == "cli" {
		r := implWriteCLI(doc, cfg)
		if r.OK() {
			return writeResult{Bytes: r.Stdout}
		}
		return writeResult{Err: firstLine(r.Stderr), Crashed: r.Crashed(), Hang: r.TimedOut, Exit: r.Exit, Stdout: len(r.Stdout)}
	}
	b, err := implWriteLib(doc, cfg)
	if err != nil {
		return writeResult{Err: err.Error(), Crashed: isPanic(err), Exit: 1}
	}
	return writeResult{Bytes: b}
}

// noteOnGroups returns, in ascending tick order, the sorted pitches struck at each tick
// (merged over all tracks).
func noteOnGroups(f *smf.File) (ticks []int64, groups [][]int) {
	m := map[int64][]int{}
	for _, tr := range f.Tracks {
		for _, e := range tr {
			if e.IsNoteOn() {
				m[e.Tick] = append(m[e.Tick], e.Key())
			}
		}
	}
	for t := range m {
		ticks = append(ticks, t)
	}
	sort.Slice(ticks, func(i, j int) bool { return ticks[i] < ticks[j] })
	for _, t := range ticks {
		sort.Ints(m[t])
		groups = append(groups, m[t])
	}
	return
}

// chordPitches is the reference: 60 + tonic + degree, tones above, bass an octave below.
func chordPitches(m *refplay.Model, key theory.Key, c *refplay.Chord) ([]int, error) {
	tones, ok := m.Dict.Resolve(c.Symbol)
	if !ok {
		return nil, fmt.Errorf("unknown symbol %q", c.Symbol)
	}
	root := 60 + key.TonicOffset() + c.Degree.MustSize()
	bass := theory.Interval{Num: 1, Q: theory.Perfect}
	if c.Bass != nil {
		bass = *c.Bass
	}
	p := []int{root + bass.MustSize() - 12}
	for _, t := range tones {
		p = append(p, root+t.MustSize())
	}
	sort.Ints(p)
	return p, nil
}

// expectedGroups lists, per chord instance in order, the pitches that must sound, with
// the key in force = most recent key at or before the chord (C or the flag at the start).
func expectedGroups(m *refplay.Model, insts []refplay.Inst, fl refplay.Flags) ([][]int, []int, error) {
	key, _ := theory.ParseKey("C")
	var groups [][]int
	var idx []int
	for i, in := range insts {
		ks := in.Key
		if i == 0 && fl.Key != nil {
			ks = fl.Key
		}
		if ks != nil {
			k, ok := theory.ParseKey(*ks)
			if !ok || !theory.IsSupported(k) {
				return nil, nil, fmt.Errorf("key %q", *ks)
			}
			key = k
		}
		if in.Chord != nil {
			p, err := chordPitches(m, key, in.Chord)
			if err != nil {
				return nil, nil, err
			}
			groups = append(groups, p)
			idx = append(idx, i)
		}
	}
	return groups, idx, nil
}

func eqInts(a, b []int) bool {
	if len(a) != len(b) {
		return false
	}
	for i := range a {
		if a[i] != b[i] {
			return false
		}
	}
	return true
}

func one() []timing.Frac { return []timing.Frac{{Num: 1, Den: 1}} }

func sp(s string) *string { return &s }
func up(u uint64) *uint64 { return &u }
func ip(i int) *int       { return &i }

func iv(s string) theory.Interval {
	i, ok := theory.ParseNotation(s)
	if !ok || !i.Exists() {
		panic("bad interval " + s)
	}
	return i
}

func ivp(s string) *theory.Interval { i := iv(s); return &i }
