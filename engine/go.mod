module verif

go 1.24.0

require (
	github.com/berquerant/crd v0.0.0
	github.com/berquerant/ybase v0.7.0
	golang.org/x/tools v0.30.0
	gopkg.in/yaml.v3 v3.0.1
)

require (
	gitlab.com/gomidi/midi/v2 v2.2.19 // indirect
	golang.org/x/mod v0.23.0 // indirect
	golang.org/x/sync v0.11.0 // indirect
)

replace github.com/berquerant/crd => /repo
