#!/usr/bin/env python3
"""Regenerates MANIFEST.json from the table below (kept in one place so that it stays valid)."""
import json, subprocess, sys, os
V = os.path.dirname(os.path.dirname(os.path.abspath(__file__)))

CHECKS = {
 "C01": dict(
   text="Bounded-exhaustive exploration of the real write path: every (key, degree 1..15 x quality, dictionary look-up, bass) chord (quick: the two faces no-bass and bass x {'', m7}; thorough: the full 8.98 M product), the key-in-force state graph (29 states x 58 operations, BFS to fixpoint, every edge replayed on the implementation), all key-change histories of length <= 4 over {chord, rest} x {-, Cb, F#m, A} with and without --key, and a CLI slice for the glue in package main; struck pitches decoded by an independent SMF reader and compared chord by chord with 60+tonic+degree(+tone | +bass-12).",
   note="Trusted: ref/theory, ref/dict (own expansion of chord/*.yml on disk, parent first), ref/smf, yaml.v3. Verdict relative to the alphabets; unbounded only for the key-in-force graph under the abstraction that the key in force is the only carried state that pitches depend on.",
   technique="bounded-exhaustive enumeration of chords and key-change histories + explicit-state BFS of the key-in-force machine on the real code vs. reference model",
   ref="DESIGN.md §4 C01"),
 "C02": dict(
   text="All histories up to length 3 (thorough: 4-5 on sub-alphabets) over {chord, chord, rest} x 24 duration lists incl. non-unit numerators, denominators not dividing 960, exact half-tick ties and several fractions per instance, on 1 and 3 tracks, through the real write path; note-on/off ticks compared with exact rational arithmetic (either neighbour on ties), release-before-strike per track; plus explicit-state accounting of the real midix writer (state = writer pending + per-track pending delays via hook, clock invariant in every state).",
   note="Trusted: math/big, ref/smf. Bounded: histories up to the stated lengths; the accounting search is depth-capped (values grow without bound).",
   technique="bounded-exhaustive history enumeration + explicit-state search with a clock invariant on the real writer",
   ref="DESIGN.md §4 C02"),
 "C04": dict(
   text="Every string up to length 5/6 over a 17-character alphabet, every one-character extension of every reference-viable prefix up to length 6/7, every edge of the (LR stack, growing token, lexer mode, in-comment) state graph of chords.y (built to fixpoint in the reference, every edge replayed on the real lexer+parser with token stream, lexer-mode hook, verdict and tree compared; live targets completed by their shortest accepting suffix, dead ones followed by every 2 further characters), every viable token-kind prefix up to 11/14 tokens, pumped loops, and a CLI slice; oracle = documented tokeniser + SLR(1) recogniser derived from chords.y on disk (cross-checked against Earley) + independent tree builder; shipped parser bound to chords.y by goyacc regeneration.",
   note="Trusted: the reading of the documented tokenisation in ref/chordlang; goyacc regeneration is a supporting step, not enumeration; the LALR stack itself is not observed.",
   technique="bounded-exhaustive string enumeration + explicit-state search of the grammar x lexer-mode graph with every model edge replayed on the implementation",
   ref="DESIGN.md §4 C04"),
 "C06": dict(
   text="All histories up to length 3/4 over 7 instance shapes x every track count 1..32 (one length more for N in {1,2,3,4,7}) through the real write path, in-process and through the binary: merged (tick,event) multiset equal to that of --track 1, every end-of-track at the exact total, N chunks; explicit-state accounting of the real writer with Close (every track stands at the total after Close).",
   note="Trusted: ref/smf, ref/timing. Bounded by history length and N <= 32; accounting depth-capped.",
   technique="bounded-exhaustive history x configuration enumeration with a metamorphic oracle + explicit-state search with a clock invariant",
   ref="DESIGN.md §4 C06"),
 "C07": dict(
   text="Deviation-bounded choice-tree search over settings histories (kind chord/rest free; each present setting of bpm, meter, key, velocity, txt, lic, mrk is one deviation; length <= 3 with <= 3/4 deviations, length <= 4 with <= 2/3), value sweeps of every setting over its domain at instance 0 and after a rest, 16 flag subsets x 256 two-instance documents (binary and in-process), and an explicit-state search of the real midiArgs cells to fixpoint (243 value-class states x 64 operations, calls emitted into a recording writer compared on every edge).",
   note="Trusted: ref/play, ref/theory, ref/smf; velocities are learned from the run (order, not numbers, is prescribed). Unbounded only for the midiArgs graph under its stated abstraction.",
   technique="deviation-bounded stateless search + explicit-state BFS to fixpoint on the real settings machine vs. reference model",
   ref="DESIGN.md §4 C07"),
 "C08": dict(
   text="Every file produced for all histories up to length 2/3 over 13 instance shapes (incl. out-of-range degrees, bass doubling a tone, long text) x track counts up to 256, every --program 0..255, instrument names around the VLQ boundary, through the binary and in-process, parsed by a strict SMF reader written from the specification that shares no code with the writer; format/ntrks/one-EOT-last/balanced notes/control events in track 0.",
   note="Trusted: ref/smf. Bounded by the stated alphabets; N >= 65536 excluded.",
   technique="bounded-exhaustive enumeration of documents x configurations on the real code vs. a strict independent SMF decoder",
   ref="DESIGN.md §4 C08"),
 "C13": dict(
   text="Complete enumeration of the finite space the property quantifies over: all 42 spellings [A-G][#b]?m? through three observation paths (op.NewScale in-process, `crd info key describe`, `crd info key list`) of the real code, each compared with an independent line-of-fifths model; unbounded verdict because the space is finite.",
   note="Trusted: ref/theory (line-of-fifths arithmetic, independent of op/scale.go), yaml.v3, Go runtime.",
   technique="exhaustive explicit enumeration of all 42 key states x 3 observation paths on the real code vs. reference model",
   ref="DESIGN.md §4 C13"),
}
NOT_YET = "check not built yet in this session (work in progress; see DESIGN.md §9 order of work)"

def main():
    props = [json.loads(l)["id"] for l in open(os.path.join(V, "properties.jsonl"))]
    hooks_commits = subprocess.run(["git","-C","/repo","log","--format=%h","--grep=^verif hooks"],capture_output=True,text=True).stdout.split()
    m = {
     "version": 1,
     "setup_cmd": "./setup.sh",
     "hooks": {
       "guard": "verif (Go build tag)",
       "enable": "go build -tags verif (done by ./check when it builds engine/cmd/vcheck against /repo through the replace directive); scheduler and map-order instrumentation is generated at check time and applied with go build -overlay, never written to /repo",
       "baseline_off_cmd": "./baseline.sh",
       "source_commits": hooks_commits,
       "add_only": True,
     },
     "engines": [
       {"name":"mc","path":"engine/mc","serves_properties":props,"kind_free_text":"stateless choice-tree search with deviation bound (Explore), explicit-state BFS over the real transition functions, exhaustive products on a worker pool"},
       {"name":"cli","path":"engine/cli","serves_properties":props,"kind_free_text":"runs the crd binary rebuilt from /repo's working tree; observes exit status, stdout, stderr, -o file"},
       {"name":"ref","path":"engine/ref","serves_properties":props,"kind_free_text":"reference models independent of the code under test: line-of-fifths theory, strict SMF decoder, exact rational timing, grammar read from chords.y, dictionary loader"},
     ],
     "checks": [],
     "not_applicable": [],
     "notes": "All checks: ./check <ID> quick|thorough; replay: ./check <ID> --replay <file>. Genuine defects: known_findings.json. Design: DESIGN.md.",
    }
    for p in props:
        if p in CHECKS:
            c = CHECKS[p]
            m["checks"].append({
              "property_id": p,
              "quick_cmd": f"./check {p} quick",
              "thorough_cmd": f"./check {p} thorough",
              "evidence_file": f"/verif/evidence/{p}.json",
              "replay_cmd_template": f"./check {p} --replay {{path}}",
              "engine": "mc+cli+ref",
              "level_claimed": {"category":"model_checking","text":c["text"],"design_ref":c["ref"]},
              "level_note": c["note"],
              "technique": c["technique"],
            })
        else:
            m["not_applicable"].append({"property_id": p, "reason": NOT_YET})
    json.dump(m, open(os.path.join(V,"MANIFEST.json"),"w"), indent=1)
    print("MANIFEST.json written:", len(m["checks"]), "checks,", len(m["not_applicable"]), "not claimed")

main()
