#!/usr/bin/env python3
"""Regenerates MANIFEST.json from the table below (kept in one place so that it stays valid)."""
import json, subprocess, sys, os
V = os.path.dirname(os.path.dirname(os.path.abspath(__file__)))

CHECKS = {
 "C01": dict(
   text="Bounded-exhaustive exploration of the real write path: every (key, degree 1..15 x quality, dictionary look-up, bass) chord (quick: the two faces no-bass and bass x {'', m7}; thorough: the full 8.98 M product), the key-in-force state graph (29 states x 58 operations, BFS to fixpoint, every edge replayed on the implementation), all key-change histories of length <= 4/5 over {chord, rest} x {-, Cb, F#m, A} with and without --key, every ordered pair of look-ups as [A B A B], a CLI slice for the glue in package main; plus long documents: periodic pieces of 130 and 300 (thorough: 1100) instances with exactly one deviation (key change, key repeated, tempo, meter, dynamic, text, 700-beat rest, 1/64 value, other symbol / degree / bass, two values, chord<->rest) at every position (130) or every counting boundary 63..257 (300); struck pitches decoded by an independent SMF reader and compared chord by chord with 60+tonic+degree(+tone | +bass-12). YAML spellings of a piece (3 pieces incl. a one-line document of 85 kB x 12 spellings: aliases, flow/JSON, comments, markers, directive, BOM, CR LF, indentation) must give the file of the plain spelling. One piece per key holding every (degree <= 24, look-up) chord inside the MIDI range in three orders; long documents with two deviations (every ordered pair of kinds).",
   note="Trusted: ref/theory, ref/dict (own expansion of chord/*.yml on disk, parent first), ref/smf, yaml.v3. Verdict relative to the alphabets; unbounded only for the key-in-force graph under the abstraction that the key in force is the only carried state that pitches depend on.",
   technique="bounded-exhaustive enumeration of chords and key-change histories + explicit-state BFS of the key-in-force machine on the real code vs. reference model",
   ref="DESIGN.md §4 C01"),
 "C02": dict(
   text="All histories up to length 3 (thorough: 4-5 on sub-alphabets) over {chord, chord, rest} x 29 duration lists incl. non-unit numerators, denominators not dividing 960, exact half-tick ties, 1/2000, 69 and 70 000 beats and several fractions per instance, on 1 and 3 tracks, in-process and through the binary; plus long documents: periodic pieces of 130 and 300 (thorough: 1100) instances with exactly one deviation (key change, key repeated, tempo, meter, dynamic, text, 700-beat rest, 1/64 value, other symbol / degree / bass, two values, chord<->rest) at every position (130) or every counting boundary 63..257 (300) on 1 and 3 tracks (clock past 2^14, 2^16 and 2^21 ticks); note-on/off ticks compared with exact rational arithmetic (either neighbour on ties), release-before-strike per track; plus explicit-state accounting of the real midix writer (observational: the file is decoded after every prefix + Close). YAML spellings of a piece (3 pieces incl. a one-line document of 85 kB x 12 spellings: aliases, flow/JSON, comments, markers, directive, BOM, CR LF, indentation) must give the file of the plain spelling. Durations on the boundaries of the variable-length delta encoding (127/128, 16383/16384, 2^21 ticks) and around what a delta / a 32-bit counter can hold (2^28, 2^32 ticks: refused or exact).",
   note="Trusted: math/big, ref/smf. Bounded: histories up to the stated lengths; the accounting search is depth-capped (values grow without bound).",
   technique="bounded-exhaustive history enumeration + explicit-state search with a clock invariant on the real writer",
   ref="DESIGN.md §4 C02"),
 "C04": dict(
   text="Every string up to length 5/6 over a 17-character alphabet, every one-character extension of every reference-viable prefix up to length 6/7, every edge of the (LR stack, growing token, lexer mode, in-comment) state graph of chords.y (built to fixpoint in the reference, every edge replayed on the real lexer+parser with token stream, lexer-mode hook, verdict and tree compared; live targets completed by their shortest accepting suffix, dead ones followed by every 2 further characters), every viable token-kind prefix up to 11/14 tokens, pumped loops, and a CLI slice; oracle = documented tokeniser + SLR(1) recogniser derived from chords.y on disk (cross-checked against Earley) + independent tree builder; shipped parser bound to chords.y by goyacc regeneration.",
   note="Trusted: the reading of the documented tokenisation in ref/chordlang; goyacc regeneration is a supporting step, not enumeration; the LALR stack itself is not observed.",
   technique="bounded-exhaustive string enumeration + explicit-state search of the grammar x lexer-mode graph with every model edge replayed on the implementation",
   ref="DESIGN.md §4 C04"),
 "C06": dict(
   text="All histories up to length 4 over 7 instance shapes x every track count 1..32 (length 5 for N in {1,2,3,4,7}) through the real write path, in-process and through the binary; plus long documents: periodic pieces of 130 and 300 (thorough: 1100) instances with exactly one deviation (key change, key repeated, tempo, meter, dynamic, text, 700-beat rest, 1/64 value, other symbol / degree / bass, two values, chord<->rest) at every position (130) or every counting boundary 63..257 (300) x N in {2,3,16}: merged (tick,event) multiset equal to that of --track 1, every end-of-track at the exact total, N chunks; explicit-state accounting of the real writer with Close for N = 1..4 (every track stands at the total after Close); --track 0/-1 refused. YAML spellings of a piece (3 pieces incl. a one-line document of 85 kB x 12 spellings: aliases, flow/JSON, comments, markers, directive, BOM, CR LF, indentation) must give the file of the plain spelling. User chords of 1..40 tones x every track count 1..40 (more tones than tracks, as many, fewer).",
   note="Trusted: ref/smf, ref/timing. Bounded by history length and N <= 32; accounting depth-capped.",
   technique="bounded-exhaustive history x configuration enumeration with a metamorphic oracle + explicit-state search with a clock invariant",
   ref="DESIGN.md §4 C06"),
 "C07": dict(
   text="Deviation-bounded choice-tree search over settings histories (kind chord/rest free; each present setting of bpm, meter, key, velocity, txt, lic, mrk is one deviation; length <= 3 with <= 3/4 deviations, length <= 4 with <= 2/3, also with repeated values), value sweeps of every setting at instance 0 and after a rest, in-process, through the binary and as flags (34 tempos across the byte/16/24/32/63/64-bit boundaries, 28 meters incl. those a MIDI file cannot state - these must be refused -, 28 keys, 6 dynamics, 17 texts incl. 127/128/16383/16384-byte ones), 16 flag subsets x 256 two-instance documents and rest-first documents, YAML spellings (aliases, flow style), long documents: periodic pieces of 130 and 300 (thorough: 1100) instances with exactly one deviation (key change, key repeated, tempo, meter, dynamic, text, 700-beat rest, 1/64 value, other symbol / degree / bass, two values, chord<->rest) at every position (130) or every counting boundary 63..257 (300), and an explicit-state search of the real midiArgs cells to fixpoint (243 value-class states x 64 operations, emitted calls compared as multisets on every edge). YAML spellings of a piece (3 pieces incl. a one-line document of 85 kB x 12 spellings: aliases, flow/JSON, comments, markers, directive, BOM, CR LF, indentation) must give the file of the plain spelling. Settings written in chord text (each setting on a chord, on a rest, after the rest, on a trailing rest) through `text conv degree | write`.",
   note="Trusted: ref/play, ref/theory, ref/smf; velocities are learned from the run (order, not numbers, is prescribed). Unbounded only for the midiArgs graph under its stated abstraction.",
   technique="deviation-bounded stateless search + explicit-state BFS to fixpoint on the real settings machine vs. reference model",
   ref="DESIGN.md §4 C07"),
 "C08": dict(
   text="Every file produced for all histories up to length 2/3 over 15 instance shapes (incl. out-of-range degrees, bass doubling a tone, lowest pitch, 200-byte text, extreme tempo/meter) x track counts up to 256 (and 1000), every --program 0..255, instrument names around the VLQ boundary, over-long durations around 2^28 ticks, long documents: periodic pieces of 130 and 300 (thorough: 1100) instances with exactly one deviation (key change, key repeated, tempo, meter, dynamic, text, 700-beat rest, 1/64 value, other symbol / degree / bass, two values, chord<->rest) at every position (130) or every counting boundary 63..257 (300) x N in {1,3}, through the binary and in-process, parsed by a strict SMF reader written from the specification that shares no code with the writer; format/ntrks/one-EOT-last/balanced notes/control events in track 0. YAML spellings of a piece (3 pieces incl. a one-line document of 85 kB x 12 spellings: aliases, flow/JSON, comments, markers, directive, BOM, CR LF, indentation) must give the file of the plain spelling. User chords of up to 40 tones x track counts up to 256. Track counts at the header limit (32767 .. 131071): refused or strictly well-formed.",
   note="Trusted: ref/smf. Bounded by the stated alphabets; N >= 65536 excluded.",
   technique="bounded-exhaustive enumeration of documents x configurations on the real code vs. a strict independent SMF decoder",
   ref="DESIGN.md §4 C08"),
 "C12": dict(
   text="The real sources of nondeterminism are put under the explorer's control, on code rewritten from the working tree at check time (go build -overlay, nothing committed): (1) every map-iteration site is driven, per command-input and per site it reaches, through all rotations of the sorted and of the reversed key order (a family that puts every key first and every pair in both orders; pairs of sites in thorough), each vector one run of the rewritten binary compared byte-for-byte with the default order and with the plain binary; (2) goroutines, channels, select, mutexes, wait groups and Once run under a cooperative scheduler: the AST classifier against a sequential reference walk (all interleavings for trees of <= 2 chords, 224 808 schedules each; preemption-bounded for 8- and 40-chord trees), the whole `text conv` path from inside package main (<= 5 preemptions quick, all interleavings thorough on 2-chord texts; bounded on 3..600-chord texts), and every other command line (35: write, write event/parse/conv, info *, gen, user dictionaries) executed through cobra under the scheduler with preemption bound 2/3 - every schedule must give the bytes and verdict of the default schedule, no deadlock, no panic; (3) the finite product of I/O paths {stdin, -, FILE, stdin in pieces, FIFO, /dev/stdin} x {stdout, -o new, -o existing} x --debug; supplementary free-running repetition under GOMAXPROCS 1/2/16, other environments, a re-run two seconds later and a -race pass (thorough). Every command line runs through main() itself under the scheduler (os.Exit in package main rewritten); help texts are output too; once per command stdout is a character device and stdin's first byte arrives after 3 s.",
   note="Scheduling points are the synchronisation operations; real memory-ordering effects are outside (supplementary -race pass only). A construct the scheduler does not model (select, atomics, timers) yields no verdict for that part (exhaustive:false), never a guess.",
   technique="stateless model checking of the real goroutine code under a controlled scheduler (preemption-bounded DFS) + exhaustive enumeration of controlled map-iteration orders and I/O configurations",
   ref="DESIGN.md §4 C12"),
 "C13": dict(
   text="Complete enumeration of the finite space the property quantifies over: all 42 spellings [A-G][#b]?m? through three observation paths (op.NewScale in-process, `crd info key describe`, `crd info key list`) of the real code, each compared with an independent line-of-fifths model; unbounded verdict because the space is finite.",
   note="Trusted: ref/theory (line-of-fifths arithmetic, independent of op/scale.go), yaml.v3, Go runtime.",
   technique="exhaustive explicit enumeration of all 42 key states x 3 observation paths on the real code vs. reference model",
   ref="DESIGN.md §4 C13"),
 "C03": dict(
   text="Complete enumeration of the space the property quantifies over: 28 keys x 21 roots x (no bass + 21 basses) = 12 936 single chords through `text conv syllable`, in-process (28 converter-scale states x 462 operations) and through the real binary (accepted chords batched per key and byte-compared, refused ones one per run with the failure shape checked); number = letter distance, size = pitch distance mod 12, scale notes mandatory with the scale's own degree. Every chord with an accidental is also written with the accidentals spelled ♯ / ♭.",
   note="Trusted: ref/theory. Unbounded verdict: the space is finite and enumerated completely.",
   technique="exhaustive enumeration of the finite input space on the real code vs. reference model",
   ref="DESIGN.md §4 C03"),
 "C05": dict(
   text="All progressions up to length 2 over 97 abstract chords (and 3..4 over a 10-element sub-alphabet) in each of the 28 keys rendered as degree text and as note-name text must convert to the same bytes; every placement of {key=..} on a 4-element progression x 6^3 key triples plus the complete 28 x 28 converter-scale change graph (every edge replayed); 6 documents under all 28 x 28 pairs of --key values differ by the tonic distance only. Long progressions: 130 chords with a key change at every position and the change back 50 chords later, in 6 (thorough: 28) keys.",
   note="Metamorphic oracles; ref/theory for spelling and tonic distance. Bounded by progression length and alphabets; the scale-change graph is complete.",
   technique="bounded-exhaustive enumeration with metamorphic oracles + complete state graph of the converter scale",
   ref="DESIGN.md §4 C05"),
 "C09": dict(
   text="Bounded-exhaustive deviations from valid inputs and bounded-exhaustive short inputs on every command, observed at the real binary: all chord texts <= 2/3 over 22 symbols on the three text commands and all YAML strings <= 2 on the four write commands; every one-deviation byte mutant (truncation, deletion, replacement/insertion by 20 bytes at every position) of valid chord texts, instance documents and dictionary files; the complete nonsense table (value x channel {text metadata, YAML field, flag} x interpreting command, each also with -o, pass-through nonsense piped into write); a flag-value table; --debug variants; plus in-process sweeps one symbol longer with clock-free hang detection. Oracle: terminates, no panic/fatal/signal, exit 0 or (exit != 0, stderr diagnostic, empty stdout, -o empty/absent); nonsense refused by the first interpreting stage. Also: every data-producing command x destinations that cannot take the result (full device, missing directory, directory, read-only file) and sources that cannot be read; 2..300 dictionary files; pairs of write flags; track counts around 2^15/2^16; a panic recovered by fmt counts as a crash; neutral arguments (flags at their empty/zero default, /dev/null as empty stdin, 18 awkward file names) must not change the result. `write play` with every port name, `midi port`, `completion`, `help`.",
   note="Hang watchdog is wall clock but lax and re-run (10 s, then 3 x 30 s). One open known finding (goyacc trace on stdout under --debug). Bounded by input length and one deviation.",
   technique="deviation-bounded exhaustive fault/input enumeration against the real binary with a failure-shape oracle",
   ref="DESIGN.md §4 C09"),
 "C10": dict(
   text="Complete value spaces of every scalar field (356 intervals as degree and base, 28 keys, 52^2 fractions and meters incl. 32/64-bit boundaries, bpm 1..2000, dynamics, all strings <= 3 over a 21-character YAML-hostile alphabet as metadata values and keys) printed the way text conv does and re-read the way write does and generically; 769 chord texts through text conv | write compared with ref/play's meaning of the text; all documents <= 2 over 8 shapes through write conv | write vs write. write conv round trip also over every history of length 3 over {absent, default, other} per setting and long documents; metadata values that look like YAML escapes; 20 entries and 300-byte keys on one instance.",
   note="Trusted: yaml.v3 as generic reader. One open known finding (metadata key <<). Strings starting with a line break are excluded (yaml.v3 itself does not round-trip them).",
   technique="exhaustive enumeration of value spaces through the real print/parse pair + bounded-exhaustive pipeline histories vs. reference model",
   ref="DESIGN.md §4 C10"),
 "C11": dict(
   text="Deviation-bounded choice-tree search over spelling variants of every accepted token sequence of chords.y up to 9/12 tokens in both notations: every inter-token gap (8 trivia choices incl. compound comment+newline trivia), leading whitespace inside braces, optional `_`, leading zeros, ASCII vs Unicode accidentals; <= 2/3 deviations (full product for short sentences in thorough); text conv must print the same bytes and give the same verdict as for the canonical spelling, in-process and (1 deviation) through the binary; 11 look-alike accidental characters; Unicode-spelled keys and notes through all 9 doors a key or note can come through (text metadata, --key of four commands, key: in YAML, describe targets and roots). Duration numbers that read differently in another base (10, 8, 9, 16) with up to 30 leading zeros.",
   note="Metamorphic; the documented tokeniser decides which variants are spellings of the same tokens.",
   technique="deviation-bounded stateless search over spelling choices with a metamorphic oracle",
   ref="DESIGN.md §4 C11"),
 "C14": dict(
   text="Explicit-state: the 28 key states x 4 conversions (every spelling of every circle member is a start state), every edge checked against pitch-class arithmetic, closed under the conversions (fixpoint); all 152 880 chains up to length 6 from all 28 keys in-process, all chains up to length 3/4 and closure chains of length 12/24/48 through `crd info key conv`; laws asserted directly. Pumped chains: every word of length <= 3 repeated to 12..480 letters.",
   note="Trusted: ref/theory. Result sets compared as sets.",
   technique="explicit-state exploration of the 28-key graph to fixpoint + bounded-exhaustive chain enumeration vs. reference model",
   ref="DESIGN.md §4 C14"),
 "C15": dict(
   text="Numbers 1..64 (and to 200) x 7 qualities: existence, size, notation, print/parse; all 55 986 notation strings of length <= 6 over {b,#,0,1,2,9}; `info attr describe` for 21 roots x 67 attributes x both preferences (complete) and `info chord describe` for roots x 46 look-ups x 2 through the real binary, checked with the spelling equation. `gen attr -d N` for 14 bounds up to 200: names, notations, completeness.",
   note="Trusted: ref/theory size formula.",
   technique="exhaustive enumeration of interval and notation spaces on the real code vs. reference model",
   ref="DESIGN.md §4 C15"),
 "C16": dict(
   text="Built-ins complete (46 look-ups played and compared with the conventional table, every ordered pair as [A B A], name = display, 67 attribute names, generated = embedded = listed); all user dictionaries with n <= 2 (3 reduced in thorough) chords over the option product name {fresh, unnamed} x extends {none, built-in by name/display, every user chord incl. itself, dangling} x attributes {none, built-in, user, dangling} x attribute file {absent, fresh, unnamed} x file order x {one file, split files} x shadowed display names, in-process and (every cycle + a regular sample) through the real binary. Extends chains of 1..12 (20) user chords over built-in roots of depth 0..4 in three declaration orders, names of up to 1000 characters; user files that redefine built-ins (judged where both readings agree); 34 spellings of the dictionary files (comments, BOM, CR LF, directive, flow, JSON, anchors).",
   note="Trusted: ref/dict. Overriding entries excluded (the statement does not fix which definition wins).",
   technique="exhaustive small-scope enumeration of dictionaries on the real loader vs. reference loader",
   ref="DESIGN.md §4 C16"),
 "C17": dict(
   text="Complete: 28 keys x 14 chords printed by `info key describe`, checked as notation and fed through `text conv syllable --key K | write --key K` (batched and one by one) with the real binary; sounded interval pattern above each root and scale membership of every pitch class. Six runs per key, all alike.",
   note="Trusted: ref/theory patterns. Unbounded: the space is finite.",
   technique="exhaustive enumeration of the finite space through the whole pipeline vs. reference model",
   ref="DESIGN.md §4 C17"),
}
NOT_YET = "check not built yet in this session (work in progress; see DESIGN.md §9 order of work)"

def main():
    props = [json.loads(l)["id"] for l in open(os.path.join(V, "properties.jsonl"))]
    hooks_commits = subprocess.run(["git","-C","/repo","log","--format=%h","--grep=^verif hooks"],capture_output=True,text=True).stdout.split()
    m = {
     "version": 1,
     "setup_cmd": "./setup.sh",
     "hooks": {
       "guard": "verif (Go build tag)",
       "enable": "go build -tags verif (done by ./check when it builds engine/cmd/vcheck against /repo through the replace directive); scheduler and map-order instrumentation is generated at check time and applied with go build -overlay, never written to /repo",
       "baseline_off_cmd": "./baseline.sh",
       "source_commits": hooks_commits,
       "add_only": True,
     },
     "engines": [
       {"name":"mc","path":"engine/mc","serves_properties":props,"kind_free_text":"stateless choice-tree search with deviation bound (Explore), explicit-state BFS over the real transition functions, exhaustive products on a worker pool"},
       {"name":"cli","path":"engine/cli","serves_properties":props,"kind_free_text":"runs the crd binary rebuilt from /repo's working tree; observes exit status, stdout, stderr, -o file"},
       {"name":"ref","path":"engine/ref","serves_properties":props,"kind_free_text":"reference models independent of the code under test: line-of-fifths theory, strict SMF decoder, exact rational timing, grammar read from chords.y, dictionary loader"},
     ],
     "checks": [],
     "not_applicable": [],
     "notes": "All checks: ./check <ID> quick|thorough; replay: ./check <ID> --replay <file>. Genuine defects: known_findings.json. Design: DESIGN.md.",
    }
    for p in props:
        if p in CHECKS:
            c = CHECKS[p]
            m["checks"].append({
              "property_id": p,
              "quick_cmd": f"./check {p} quick",
              "thorough_cmd": f"./check {p} thorough",
              "evidence_file": f"/verif/evidence/{p}.json",
              "replay_cmd_template": f"./check {p} --replay {{path}}",
              "engine": "mc+cli+ref",
              "level_claimed": {"category":"model_checking","text":c["text"],"design_ref":c["ref"]},
              "level_note": c["note"],
              "technique": c["technique"],
            })
        else:
            m["not_applicable"].append({"property_id": p, "reason": NOT_YET})
    json.dump(m, open(os.path.join(V,"MANIFEST.json"),"w"), indent=1)
    print("MANIFEST.json written:", len(m["checks"]), "checks,", len(m["not_applicable"]), "not claimed")

main()
