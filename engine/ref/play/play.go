// Package play is the reference meaning of an instances document: which MIDI events
// must sound at which tick. It is built from ref/theory, ref/timing and ref/dict only.
package play

import (
	"errors"
	"fmt"
	"math/big"
	"sort"
	"strconv"
	"strings"

	"verif/ref/dict"
	"verif/ref/smf"
	"verif/ref/theory"
	"verif/ref/timing"
)

// Chord of an instance.
type Chord struct {
	Degree theory.Interval  `json:"degree"`
	Symbol string           `json:"symbol"`
	Bass   *theory.Interval `json:"bass,omitempty"`
}

// Inst is one instance of an instances document (a chord or a rest).
type Inst struct {
	Chord  *Chord            `json:"chord,omitempty"`
	Values []timing.Frac     `json:"values"`
	BPM    *uint64           `json:"bpm,omitempty"`
	Meter  *timing.Frac      `json:"meter,omitempty"`
	Key    *string           `json:"key,omitempty"`
	Vel    *string           `json:"vel,omitempty"`
	Meta   map[string]string `json:"meta,omitempty"`
}

// Flags are the override flags of `crd write`.
type Flags struct {
	BPM   *uint64      `json:"bpm,omitempty"`
	Meter *timing.Frac `json:"meter,omitempty"`
	Key   *string      `json:"key,omitempty"`
	Vel   *string      `json:"vel,omitempty"`
}

func (f Flags) Args() []string {
	var a []string
	if f.BPM != nil {
		a = append(a, "--bpm", fmt.Sprint(*f.BPM))
	}
	if f.Meter != nil {
		a = append(a, "--meter", f.Meter.String())
	}
	if f.Key != nil {
		a = append(a, "--key", *f.Key)
	}
	if f.Vel != nil {
		a = append(a, "--velocity", *f.Vel)
	}
	return a
}

// yamlQuote renders a scalar as a double-quoted YAML string.
func yamlQuote(s string) string {
	var b strings.Builder
	b.WriteByte('"')
	for _, r := range s {
		switch r {
		case '"':
			b.WriteString(`\"`)
		case '\\':
			b.WriteString(`\\`)
		case '\n':
			b.WriteString(`\n`)
		case '\t':
			b.WriteString(`\t`)
		case '\r':
			b.WriteString(`\r`)
		default:
			if r < 0x20 {
				fmt.Fprintf(&b, `\x%02x`, r)
			} else {
				b.WriteRune(r)
			}
		}
	}
	b.WriteByte('"')
	return b.String()
}

// YAML prints the document in the format `crd write --help` documents.
func YAML(insts []Inst) string {
	var b strings.Builder
	for _, in := range insts {
		first := true
		item := func(s string) {
			if first {
				b.WriteString("- " + s + "\n")
				first = false
			} else {
				b.WriteString("  " + s + "\n")
			}
		}
		if c := in.Chord; c != nil {
			item("chord:")
			b.WriteString("    degree: " + yamlQuote(c.Degree.Notation()) + "\n")
			b.WriteString("    name: " + yamlQuote(c.Symbol) + "\n")
			if c.Bass != nil {
				b.WriteString("    base: " + yamlQuote(c.Bass.Notation()) + "\n")
			}
		}
		item("values:")
		for _, v := range in.Values {
			b.WriteString("    - " + yamlQuote(v.String()) + "\n")
		}
		if in.BPM != nil {
			item("bpm: " + fmt.Sprint(*in.BPM))
		}
		if in.Vel != nil {
			item("velocity: " + *in.Vel)
		}
		if in.Meter != nil {
			item("meter: " + yamlQuote(in.Meter.String()))
		}
		if in.Key != nil {
			item("key: " + yamlQuote(*in.Key))
		}
		if in.Meta != nil {
			item("meta:")
			keys := make([]string, 0, len(in.Meta))
			for k := range in.Meta {
				keys = append(keys, k)
			}
			sort.Strings(keys)
			for _, k := range keys {
				b.WriteString("    " + yamlQuote(k) + ": " + yamlQuote(in.Meta[k]) + "\n")
			}
			if len(keys) == 0 {
				// an empty mapping
				s := b.String()
				b.Reset()
				b.WriteString(strings.TrimSuffix(s, "meta:\n") + "meta: {}\n")
			}
		}
	}
	return b.String()
}

// Exp is one expected event: at Tick, any of the canonical renderings in Alt.
type Exp struct {
	Tick int64
	Alt  []string
	Inst int // instance index that causes it (-1: initial)
}

// Dynamics in increasing loudness.
var Dynamics = []string{"pp", "p", "mp", "mf", "f", "ff"}

// Model computes the expected events.
type Model struct {
	Dict *dict.Dict
	T    int64
	// Vel maps a dynamic sign to its velocity; "" is the default before any dynamic.
	Vel map[string]int
}

// ErrUnstatable marks a setting that a Standard MIDI File has no way to state (a tempo
// outside 1..2^24-1 microseconds per quarter, a numerator above 255, a denominator that is
// not a power of two up to 128): no output is right for it, only a refusal.
var ErrUnstatable = errors.New("outside the SMF-expressible domain")

func tempoAlts(bpm uint64) []string {
	// microseconds per quarter within < 1 of 60,000,000/bpm, in the 24 bits the event has;
	// 0 is no tempo
	x := new(big.Rat).SetFrac(big.NewInt(60000000), new(big.Int).SetUint64(bpm))
	q := new(big.Int).Quo(x.Num(), x.Denom())
	if !q.IsInt64() || q.Int64() > 0xFFFFFF {
		return nil
	}
	fl := q.Int64()
	alts := []int64{fl}
	if !x.IsInt() {
		alts = append(alts, fl+1)
	}
	var r []string
	for _, us := range alts {
		if us >= 1 && us <= 0xFFFFFF {
			r = append(r, fmt.Sprintf("meta 51 %06x", us))
		}
	}
	return r
}

func meterAlts(m timing.Frac) ([]string, bool) {
	// numerator, log2 denominator; the two remaining bytes are not prescribed
	lg := -1
	for i := 0; i < 8; i++ {
		if m.Den == 1<<uint(i) {
			lg = i
		}
	}
	if lg < 0 || m.Num < 1 || m.Num > 255 {
		return nil, false
	}
	return []string{fmt.Sprintf("meter %d/2^%d", m.Num, lg)}, true
}

func keySigAlt(k theory.Key) string {
	sf := k.Signature()
	mi := 0
	if k.Minor {
		mi = 1
	}
	return fmt.Sprintf("meta 59 %02x%02x", byte(int8(sf)), mi)
}

// CanonObserved renders an observed event the way expectations are written.
func CanonObserved(e smf.Event) string {
	if e.IsMeta(0x58) && len(e.Data) == 4 {
		return fmt.Sprintf("meter %d/2^%d", e.Data[0], e.Data[1])
	}
	return e.Canon()
}

// RoundChoice selects, for an instance whose length is exactly halfway between two tick
// counts, which neighbour is taken (true = upper).
type RoundChoice func(inst int) bool

// Expect lists the expected events (without track header events and end-of-track) and the
// total length. ambiguous lists the instances whose rounding is a free choice.
func (m *Model) Expect(insts []Inst, fl Flags, up RoundChoice) (evs []Exp, total int64, ambiguous []int, err error) {
	key, _ := theory.ParseKey("C")
	bpm := uint64(100)
	meter := timing.Frac{Num: 4, Den: 4}
	vel := ""
	var tick int64
	for i, in := range insts {
		cur := in
		if i == 0 {
			if fl.BPM != nil {
				cur.BPM = fl.BPM
			}
			if fl.Meter != nil {
				cur.Meter = fl.Meter
			}
			if fl.Key != nil {
				cur.Key = fl.Key
			}
			if fl.Vel != nil {
				cur.Vel = fl.Vel
			}
		}
		emitBPM, emitMeter, emitKey := i == 0, i == 0, i == 0
		if cur.BPM != nil {
			bpm = *cur.BPM
			emitBPM = true
		}
		if cur.Meter != nil {
			meter = *cur.Meter
			emitMeter = true
		}
		if cur.Key != nil {
			k, ok := theory.ParseKey(*cur.Key)
			if !ok || !theory.IsSupported(k) {
				return nil, 0, nil, fmt.Errorf("instance %d: key %q has no scale", i, *cur.Key)
			}
			key = k
			emitKey = true
		}
		if cur.Vel != nil {
			vel = *cur.Vel
		}
		if emitBPM {
			if bpm == 0 {
				return nil, 0, nil, fmt.Errorf("instance %d: bpm 0", i)
			}
			ta := tempoAlts(bpm)
			if len(ta) == 0 {
				return nil, 0, nil, fmt.Errorf("instance %d: bpm %d: %w", i, bpm, ErrUnstatable)
			}
			evs = append(evs, Exp{tick, ta, i})
		}
		if emitMeter {
			a, ok := meterAlts(meter)
			if !ok {
				return nil, 0, nil, fmt.Errorf("instance %d: meter %v: %w", i, meter, ErrUnstatable)
			}
			evs = append(evs, Exp{tick, a, i})
		}
		if emitKey {
			evs = append(evs, Exp{tick, []string{keySigAlt(key)}, i})
		}
		if cur.Meta != nil {
			for _, kv := range [][2]string{{"txt", "01"}, {"lic", "05"}, {"mrk", "06"}} {
				if s := cur.Meta[kv[0]]; s != "" {
					evs = append(evs, Exp{tick, []string{fmt.Sprintf("meta %s %x", kv[1], []byte(s))}, i})
				}
			}
		}
		if len(cur.Values) == 0 {
			return nil, 0, nil, fmt.Errorf("instance %d: no values", i)
		}
		for _, v := range cur.Values {
			if v.Num == 0 || v.Den == 0 {
				return nil, 0, nil, fmt.Errorf("instance %d: value %v", i, v)
			}
		}
		lo, hi := timing.Ticks(m.T, cur.Values)
		length := lo
		if lo != hi {
			ambiguous = append(ambiguous, i)
			if up != nil && up(i) {
				length = hi
			}
		}
		if c := cur.Chord; c != nil {
			tones, ok := m.Dict.Resolve(c.Symbol)
			if !ok {
				return nil, 0, nil, fmt.Errorf("instance %d: unknown chord symbol %q", i, c.Symbol)
			}
			v, ok := m.Vel[vel]
			if !ok {
				return nil, 0, nil, fmt.Errorf("instance %d: unknown dynamic %q", i, vel)
			}
			root := 60 + key.TonicOffset() + c.Degree.MustSize()
			bass := theory.Interval{Num: 1, Q: theory.Perfect}
			if c.Bass != nil {
				bass = *c.Bass
			}
			pitches := []int{root + bass.MustSize() - 12}
			for _, t := range tones {
				pitches = append(pitches, root+t.MustSize())
			}
			for _, p := range pitches {
				if p < 0 || p > 127 {
					return nil, 0, nil, fmt.Errorf("instance %d: pitch %d outside the MIDI range", i, p)
				}
				evs = append(evs, Exp{tick, []string{fmt.Sprintf("on ch0 key%d vel%d", p, v)}, i})
				evs = append(evs, Exp{tick + length, []string{fmt.Sprintf("off ch0 key%d", p)}, i})
			}
		}
		tick += length
	}
	return evs, tick, ambiguous, nil
}

// Observed is the merged multiset of a decoded file without header events and end-of-track.
type Observed struct {
	Events map[int64]map[string]int // tick -> canon -> count
	N      int
	EOT    []int64 // per track
}

// IsHeaderEvent reports track name, instrument name and program change at tick 0.
func IsHeaderEvent(e smf.Event) bool {
	return e.Tick == 0 && (e.IsMeta(0x03) || e.IsMeta(0x04) || e.Status&0xF0 == 0xC0)
}

// Relevant reports the events the properties talk about: notes, tempo, time signature, key
// signature, text, lyric, marker. Anything else (track name, instrument name, program
// change, copyright, cue points, sequencer-specific data ...) is not prescribed and ignored.
func Relevant(e smf.Event) bool {
	if e.IsNoteOn() || e.IsNoteOff() {
		return true
	}
	if e.Status == 0xFF {
		switch e.Meta {
		case 0x51, 0x58, 0x59, 0x01, 0x05, 0x06:
			return true
		}
	}
	return false
}

// Observe merges all tracks.
func Observe(f *smf.File) *Observed {
	o := &Observed{Events: map[int64]map[string]int{}}
	for _, tr := range f.Tracks {
		for _, e := range tr {
			if e.IsMeta(0x2F) {
				o.EOT = append(o.EOT, e.Tick)
				continue
			}
			if !Relevant(e) {
				continue
			}
			if o.Events[e.Tick] == nil {
				o.Events[e.Tick] = map[string]int{}
			}
			o.Events[e.Tick][CanonObserved(e)]++
			o.N++
		}
	}
	return o
}

// Describe renders the observation for messages.
func (o *Observed) Describe() string {
	var ticks []int64
	for t := range o.Events {
		ticks = append(ticks, t)
	}
	sort.Slice(ticks, func(i, j int) bool { return ticks[i] < ticks[j] })
	var b strings.Builder
	for _, t := range ticks {
		var ks []string
		for k, n := range o.Events[t] {
			if n > 1 {
				k += "x" + strconv.Itoa(n)
			}
			ks = append(ks, k)
		}
		sort.Strings(ks)
		fmt.Fprintf(&b, "@%d{%s} ", t, strings.Join(ks, "; "))
	}
	fmt.Fprintf(&b, "eot=%v", o.EOT)
	return b.String()
}

// Match compares expectations with an observation: equal multisets per tick.
func Match(exp []Exp, o *Observed) string {
	left := map[int64]map[string]int{}
	n := 0
	for t, m := range o.Events {
		left[t] = map[string]int{}
		for k, c := range m {
			left[t][k] = c
			n += c
		}
	}
	for _, e := range exp {
		found := false
		for _, a := range e.Alt {
			if left[e.Tick][a] > 0 {
				left[e.Tick][a]--
				n--
				found = true
				break
			}
		}
		if !found {
			return fmt.Sprintf("missing at tick %d: %s (instance %d)", e.Tick, strings.Join(e.Alt, " | "), e.Inst)
		}
	}
	if n != 0 {
		for t, m := range left {
			for k, c := range m {
				if c > 0 {
					return fmt.Sprintf("unexpected at tick %d: %s", t, k)
				}
			}
		}
	}
	return ""
}

// Check compares a decoded file with the model of the document: every rounding choice of
// exactly-halfway instances is tried. Returns "" when some choice matches.
func (m *Model) Check(insts []Inst, fl Flags, f *smf.File) (string, int64) {
	if int64(f.Division) != m.T {
		mm := *m
		mm.T = int64(f.Division) // the resolution is whatever the file header declares
		m = &mm
	}
	o := Observe(f)
	_, _, amb, err := m.Expect(insts, fl, nil)
	if err != nil {
		return "reference cannot interpret the document: " + err.Error(), 0
	}
	if len(amb) > 12 {
		amb = amb[:12]
	}
	first := ""
	var firstTotal int64
	for mask := 0; mask < 1<<uint(len(amb)); mask++ {
		up := func(i int) bool {
			for j, a := range amb {
				if a == i {
					return mask>>uint(j)&1 == 0
				}
			}
			return true
		}
		exp, total, _, _ := m.Expect(insts, fl, up)
		msg := Match(exp, o)
		if msg == "" {
			return "", total
		}
		if mask == 0 {
			first, firstTotal = msg, total
		}
	}
	return first, firstTotal
}
