package props

import (
	"bytes"
	"encoding/json"
	"fmt"
	"gopkg.in/yaml.v3"
	"os"
	"path/filepath"
	"strings"
	"sync/atomic"

	"verif/cli"
	"verif/ev"
	"verif/mc"
)

// C09 — no input crashes or hangs crd; failures are signalled; nonsense is refused.

// c09Case is one run of the real binary.
type c09Case struct {
	Label  string            `json:"label"`
	Args   []string          `json:"args"` // {DIR} is replaced by a private temp directory
	Stdin  string            `json:"stdin"`
	Files  map[string]string `json:"files,omitempty"`     // written into {DIR}
	Expect string            `json:"expect"`              // any | fail | ok
	Pipe   []string          `json:"pipe_into,omitempty"` // if the first command succeeds its stdout is fed to this one, which must fail
	OutArg bool              `json:"with_output_file,omitempty"`
	Shell  string            `json:"shell,omitempty"`
}

func init() {
	register(&Prop{ID: "C09", Run: runC09, Replay: map[string]func(*Env, json.RawMessage){
		"cli":      func(e *Env, raw json.RawMessage) { c := decode[c09Case](raw); c09Run(e, &c) },
		"text-lib": func(e *Env, raw json.RawMessage) { c09TextLib(e, decode[textCase](raw).Text) },
		"yaml-lib": func(e *Env, raw json.RawMessage) { c09YAMLLib(e, decode[textCase](raw).Text) },
		"out":      func(e *Env, raw json.RawMessage) { c09OutEval(e, decode[c09OutCase](raw)) },
		"neutral":  func(e *Env, raw json.RawMessage) { c09NeutralEval(e, decode[c09NeutralCase](raw)) },
	}})
}

var c09Dir int64

func cmdKey(args []string) string {
	var k []string
	for _, a := range args {
		if strings.HasPrefix(a, "-") || strings.Contains(a, "{DIR}") || strings.Contains(a, "/") {
			break
		}
		k = append(k, a)
		if len(k) == 3 {
			break
		}
	}
	return strings.Join(k, "-")
}

func shQuote(s string) string { return "'" + strings.ReplaceAll(s, "'", `'\''`) + "'" }

// c09Run runs the case and applies the failure-shape oracle.
func c09Run(e *Env, c *c09Case) {
	if cli.TooManyHangs() {
		e.R.NotExhaustive("stopped feeding the binary after 12 reproducible hangs")
		return
	}
	e.R.Eval(1)
	dir := filepath.Join(e.Scratch, fmt.Sprintf("c09-%d", atomic.AddInt64(&c09Dir, 1)))
	if err := os.MkdirAll(dir, 0o755); err != nil {
		panic(err)
	}
	defer os.RemoveAll(dir)
	for name, content := range c.Files {
		writeTemp(dir, name, content)
	}
	sub := func(a []string) []string {
		r := make([]string, len(a))
		for i, x := range a {
			r[i] = strings.ReplaceAll(x, "{DIR}", dir)
		}
		return r
	}
	args := sub(c.Args)
	outFile := ""
	if c.OutArg {
		outFile = filepath.Join(dir, "out.bin")
		args = append(args, "-o", outFile)
	}
	var q []string
	for _, a := range c.Args {
		q = append(q, shQuote(a))
	}
	c.Shell = fmt.Sprintf("printf '%%s' %s | crd %s", shQuote(c.Stdin), strings.Join(q, " "))
	fail := func(class, msg string) {
		e.R.Fail(ev.Fail{Class: class, Msg: fmt.Sprintf("[%s] crd %s <<< %q: %s", c.Label, strings.Join(c.Args, " "), trunc(c.Stdin, 120), msg), Kind: "cli", Case: c})
	}
	key := cmdKey(c.Args)
	r := cli.Run(cli.Opt{Stdin: []byte(c.Stdin), Dir: dir, MemKB: 8 << 20}, args...)
	switch {
	case r.TimedOut:
		fail("C09/hang/"+key, "does not terminate")
		return
	case r.Crashed():
		fail("C09/crash/"+key+"/"+c09CrashKind(append(append([]byte{}, r.Stderr...), r.Stdout...)), "crashes: "+firstLineWith(append(append([]byte{}, r.Stderr...), r.Stdout...), "panic", "PANIC=", "fatal error", "signal"))
		return
	}
	if r.Exit != 0 {
		if len(r.Stderr) == 0 {
			fail("C09/no-diagnostic/"+key, fmt.Sprintf("exit status %d without a diagnostic on stderr", r.Exit))
		}
		if len(r.Stdout) != 0 && c.Label == "debug" && goyaccDebugOnly(r.Stdout) {
			fail("C09/stdout-on-failure/goyacc-debug-lines", fmt.Sprintf("with --debug a syntax error prints the generated parser's trace on stdout: %q", trunc(string(r.Stdout), 100)))
		} else if len(r.Stdout) != 0 {
			fail("C09/stdout-on-failure/"+key, fmt.Sprintf("exit status %d but a result on stdout: %q", r.Exit, trunc(string(r.Stdout), 100)))
		}
		if outFile != "" {
			if b, err := os.ReadFile(outFile); err == nil && len(b) != 0 {
				fail("C09/output-file-on-failure/"+key, fmt.Sprintf("exit status %d but the -o file holds %d bytes", r.Exit, len(b)))
			}
		}
		if c.Expect == "ok" {
			fail("C09/valid-input-refused/"+key, "a valid invocation fails: "+firstLine(r.Stderr))
		}
		e.R.Outcome("fail:" + key)
		return
	}
	// exit status 0
	if strings.Contains(string(r.Stderr), `"level":"ERROR"`) {
		fail("C09/exit-status/"+key, "an error is logged but the exit status is 0: "+firstLine(r.Stderr))
		return
	}
	if c.Expect == "fail" && len(c.Pipe) == 0 {
		fail("C09/nonsense-accepted/"+c.Label, "musically meaningless input is accepted: stdout "+fmt.Sprintf("%q", trunc(string(r.Stdout), 120)))
		return
	}
	e.R.Outcome("ok:" + key)
	if len(c.Pipe) > 0 {
		// the next stage has to refuse it
		r2 := cli.Run(cli.Opt{Stdin: r.Stdout, Dir: dir, MemKB: 8 << 20}, sub(c.Pipe)...)
		k2 := cmdKey(c.Pipe)
		switch {
		case r2.TimedOut:
			fail("C09/hang/"+k2, "the downstream stage does not terminate")
		case r2.Crashed():
			fail("C09/crash/"+k2+"/"+c09CrashKind(r2.Stderr), "the downstream stage crashes: "+firstLineWith(r2.Stderr, "panic", "fatal error"))
		case r2.Exit == 0:
			fail("C09/nonsense-accepted/"+c.Label, fmt.Sprintf("the nonsense survives `crd %s` and `crd %s` accepts it too (%d bytes on stdout)", strings.Join(c.Args, " "), strings.Join(c.Pipe, " "), len(r2.Stdout)))
		case len(r2.Stdout) != 0:
			fail("C09/stdout-on-failure/"+k2, "the downstream stage fails but prints a result")
		case len(r2.Stderr) == 0:
			fail("C09/no-diagnostic/"+k2, "the downstream stage fails without a diagnostic")
		}
	}
}

// c09OutputPaths: the output destination is a flag value / part of the environment too. Every
// data-producing command with a destination that cannot take the result must fail in the
// documented shape (it has a non-empty result to deliver, so success would be a lie).
type c09OutCase struct {
	Args  []string `json:"args"`
	Stdin string   `json:"stdin"`
	Dest  string   `json:"destination"`
	Shell string   `json:"shell,omitempty"`
}

func c09OutEval(e *Env, c c09OutCase) {
	e.R.Eval(1)
	dir := filepath.Join(e.Scratch, fmt.Sprintf("c09-%d", atomic.AddInt64(&c09Dir, 1)))
	if err := os.MkdirAll(dir, 0o755); err != nil {
		panic(err)
	}
	defer os.RemoveAll(dir)
	args := append([]string{}, c.Args...)
	o := cli.Opt{Stdin: []byte(c.Stdin), Dir: dir}
	switch c.Dest {
	case "stdout-full":
		o.Redirect = ">/dev/full"
	case "o-full":
		// through a symbolic link in the scratch directory: a writer that replaces the -o path
		// (temporary file + rename) then replaces the link, never the device node itself
		link := filepath.Join(dir, "full-device")
		if err := os.Symlink("/dev/full", link); err != nil {
			panic(err)
		}
		args = append(args, "-o", link)
	case "o-missing-dir":
		args = append(args, "-o", filepath.Join(dir, "no", "such", "dir", "out"))
	case "o-directory":
		args = append(args, "-o", dir)
	case "in-missing":
		args = append(args, filepath.Join(dir, "no-such-file"))
	case "in-directory":
		args = append(args, dir)
	case "in-unreadable":
		args = append(args, writeTemp(dir, "secret.in", c.Stdin))
		os.Chmod(filepath.Join(dir, "secret.in"), 0)
	case "in-two-files":
		args = append(args, writeTemp(dir, "a.in", c.Stdin), writeTemp(dir, "b.in", c.Stdin))
	case "chord-missing":
		args = append(args, "--chord", filepath.Join(dir, "no-such-file"))
	case "chord-directory":
		args = append(args, "--chord", dir)
	case "attr-missing":
		args = append(args, "--attr", filepath.Join(dir, "no-such-file"))
	case "attr-directory":
		args = append(args, "--attr", dir)
	case "o-read-only":
		ro := writeTemp(dir, "ro.out", "old")
		os.Chmod(ro, 0o444)
		args = append(args, "-o", ro)
	}
	c.Shell = fmt.Sprintf("printf '%%s' %s | crd %s %s", shQuote(c.Stdin), strings.Join(args, " "), o.Redirect)
	key := cmdKey(c.Args)
	fail := func(class, msg string) {
		e.R.Fail(ev.Fail{Class: class, Msg: fmt.Sprintf("crd %s with destination %s: %s", strings.Join(c.Args, " "), c.Dest, msg), Kind: "out", Case: c})
	}
	r := cli.Run(o, args...)
	// a writer that builds the result elsewhere and then puts it in place of the -o path (temporary
	// file + rename) does deliver it even where the path named a device or a read-only file
	delivered := false
	if r.Exit == 0 && strings.HasPrefix(c.Dest, "o-") && len(args) > 0 {
		if st, err := os.Lstat(args[len(args)-1]); err == nil && st.Mode().IsRegular() {
			plain := cli.Run(cli.Opt{Stdin: []byte(c.Stdin), Dir: dir}, c.Args...)
			if b, err := os.ReadFile(args[len(args)-1]); err == nil && plain.OK() && bytes.Equal(b, plain.Stdout) && len(b) > 0 {
				delivered = true
			}
		}
	}
	switch {
	case r.TimedOut:
		fail("C09/hang/"+key, "does not terminate")
	case delivered:
		e.R.Outcome("ok: the result was put in place of the -o path")
	case r.Crashed():
		fail("C09/crash/"+key+"/"+c09CrashKind(r.Stderr), "crashes: "+firstLineWith(r.Stderr, "panic", "fatal error", "signal"))
	case r.Exit == 0 && (c.Dest == "o-read-only" || c.Dest == "in-unreadable") && os.Geteuid() == 0:
		e.R.Outcome("ok: root reads and writes whatever the mode")
	case r.Exit == 0 && strings.HasPrefix(c.Dest, "in-"):
		fail("C09/failure-not-signalled/"+key, "the input cannot be read, yet the exit status is 0")
	case r.Exit == 0 && (strings.HasPrefix(c.Dest, "chord-") || strings.HasPrefix(c.Dest, "attr-")):
		fail("C09/failure-not-signalled/"+key, "the dictionary file cannot be read, yet the exit status is 0")
	case len(r.Stdout) != 0 && o.Redirect == "":
		fail("C09/stdout-on-failure/"+key, fmt.Sprintf("exit status %d but a result on stdout: %q", r.Exit, trunc(string(r.Stdout), 100)))
	case r.Exit == 0:
		fail("C09/failure-not-signalled/"+key, "the result cannot be delivered, yet the exit status is 0")
	case len(r.Stderr) == 0:
		fail("C09/no-diagnostic/"+key, fmt.Sprintf("exit status %d without a diagnostic on stderr", r.Exit))
	default:
		e.R.Outcome("fail:" + key)
	}
}

// fullDeviceWorks: /dev/full exists, is a device and refuses a write.
func fullDeviceWorks() bool {
	st, err := os.Stat("/dev/full")
	if err != nil || st.Mode()&os.ModeCharDevice == 0 {
		return false
	}
	f, err := os.OpenFile("/dev/full", os.O_WRONLY, 0)
	if err != nil {
		return false
	}
	defer f.Close()
	_, err = f.Write([]byte("x"))
	return err != nil
}

func c09OutputPaths(e *Env, text, degText string) {
	type cmd struct {
		args  []string
		stdin string
	}
	cmds := []cmd{
		{[]string{"text", "parse"}, text}, {[]string{"text", "conv", "syllable"}, text}, {[]string{"text", "conv", "degree"}, degText},
		{[]string{"write"}, c09ValidDoc}, {[]string{"write", "event"}, c09ValidDoc}, {[]string{"write", "parse"}, c09ValidDoc}, {[]string{"write", "conv", "-c", "cmt"}, c09ValidDoc},
		{[]string{"info", "key", "list"}, ""}, {[]string{"info", "key", "describe", "--key", "Eb"}, ""}, {[]string{"info", "key", "conv", "--key", "C", "-c", "d"}, ""},
		{[]string{"info", "attr", "list"}, ""}, {[]string{"info", "attr", "describe", "-t", "Minor7", "-r", "C"}, ""},
		{[]string{"info", "chord", "list"}, ""}, {[]string{"info", "chord", "describe", "-t", "Cm7"}, ""}, {[]string{"gen", "attr", "-d", "10"}, ""},
		// results larger than any buffer in between
		{[]string{"write", "event"}, strings.Repeat(c09ValidDoc, 400)}, {[]string{"gen", "attr", "-d", "300"}, ""}, {[]string{"text", "conv", "syllable"}, strings.Repeat(text+" ", 300)},
	}
	// (a closed stdout is no such destination: the Go runtime opens /dev/null on a closed descriptor 0-2)
	dests := []string{"stdout-full", "o-full", "o-missing-dir", "o-directory", "o-read-only"}
	if !fullDeviceWorks() {
		// not a full device in this environment (missing, or replaced by a regular file): no verdicts from it
		e.R.NotExhaustive("/dev/full does not refuse writes in this environment: the full-device destinations were left out")
		dests = dests[2:]
	}
	var cases []c09OutCase
	for i, c := range cmds {
		for _, d := range dests {
			cases = append(cases, c09OutCase{Args: c.args, Stdin: c.stdin, Dest: d})
		}
		if i >= 15 {
			continue
		}
		if c.stdin != "" {
			for _, d := range []string{"in-missing", "in-directory", "in-unreadable", "in-two-files"} {
				cases = append(cases, c09OutCase{Args: c.args, Stdin: c.stdin, Dest: d})
			}
		}
		if c.args[0] == "write" || c.args[0] == "info" && (c.args[1] == "chord" || c.args[1] == "attr") {
			c.args = append(c.args, "") // room for args[1] on plain `write`
			for _, d := range []string{"chord-missing", "chord-directory", "attr-missing", "attr-directory"} {
				if c.args[1] == "attr" && strings.HasPrefix(d, "chord-") {
					continue // info attr * does not load chords
				}
				cases = append(cases, c09OutCase{Args: c.args[:len(c.args)-1], Stdin: c.stdin, Dest: d})
			}
		}
	}
	mc.ParFor(len(cases), func(i int) {
		c09OutEval(e, cases[i])
		e.R.Trace(1)
		e.R.NonTrivialN(1)
	})
	e.R.AddPart(ev.Part{Name: "output-destinations-cli", Enumerated: fmt.Sprintf("real binary: %d valid command lines (every data-producing subcommand, three with results of 100 kB and more) x destination {stdout on a full device, -o on a full device, -o in a missing directory, -o naming a directory, -o naming a read-only file}; the input-reading ones x FILE {missing, a directory, unreadable, two files}; the dictionary-loading ones x --chord/--attr {missing, a directory}: non-zero exit status with a diagnostic, never a silent success", len(cmds)), Executions: int64(len(cases)), Exhaustive: true})
}

// c09AttrNames lists the built-in attribute names as `info attr list` prints them.
func c09AttrNames(e *Env) []string {
	r := cli.In("", "info", "attr", "list")
	var as []struct {
		Name string `yaml:"name"`
	}
	if !r.OK() || yaml.Unmarshal(r.Stdout, &as) != nil {
		return nil
	}
	var names []string
	for _, a := range as {
		names = append(names, a.Name)
	}
	return names
}

const doc1ForNames = "- chord:\n    degree: \"1\"\n    name: \"ua\"\n  values:\n    - \"1\"\n"

// c09Neutral: things that must make no difference. A flag set to its empty/zero default means
// "no override"; an empty stdin is an empty stdin whether it is a pipe or /dev/null; a file is
// the same file whatever characters its name is made of.
type c09NeutralCase struct {
	Args  []string `json:"args"`
	Extra []string `json:"neutral_arguments"`
	Stdin string   `json:"stdin"`
	How   string   `json:"how"` // flags | devnull | filename:<name>
	Shell string   `json:"shell,omitempty"`
}

func c09NeutralEval(e *Env, c c09NeutralCase) {
	e.R.Eval(1)
	dir := filepath.Join(e.Scratch, fmt.Sprintf("c09-%d", atomic.AddInt64(&c09Dir, 1)))
	if err := os.MkdirAll(dir, 0o755); err != nil {
		panic(err)
	}
	defer os.RemoveAll(dir)
	base := cli.Run(cli.Opt{Stdin: []byte(c.Stdin), Dir: dir}, c.Args...)
	var r cli.Res
	switch {
	case c.How == "flags":
		r = cli.Run(cli.Opt{Stdin: []byte(c.Stdin), Dir: dir}, append(append([]string{}, c.Args...), c.Extra...)...)
	case c.How == "devnull":
		base = cli.Run(cli.Opt{Stdin: nil, Dir: dir}, c.Args...)
		r = cli.Run(cli.Opt{Dir: dir, Redirect: "</dev/null"}, c.Args...)
	case strings.HasPrefix(c.How, "filename:"):
		name := strings.TrimPrefix(c.How, "filename:")
		p := filepath.Join(dir, name)
		if err := os.WriteFile(p, []byte(c.Stdin), 0o644); err != nil {
			panic(err)
		}
		arg := "./" + name // relative to the working directory, so that a leading - is no flag
		r = cli.Run(cli.Opt{Stdin: []byte("this is not the input"), Dir: dir}, append(append([]string{}, c.Args...), arg)...)
	case strings.HasPrefix(c.How, "dictname:"):
		name := strings.TrimPrefix(c.How, "dictname:")
		plain := writeTemp(dir, "plain.yml", c09Chords)
		if err := os.WriteFile(filepath.Join(dir, name), []byte(c09Chords), 0o644); err != nil {
			panic(err)
		}
		base = cli.Run(cli.Opt{Stdin: []byte(c.Stdin), Dir: dir}, append(append([]string{}, c.Args...), "--chord", plain, "--attr", writeTemp(dir, "a.yml", c09Attrs))...)
		r = cli.Run(cli.Opt{Stdin: []byte(c.Stdin), Dir: dir}, append(append([]string{}, c.Args...), "--chord", "./"+name, "--attr", filepath.Join(dir, "a.yml"))...)
	case strings.HasPrefix(c.How, "outname:"):
		name := strings.TrimPrefix(c.How, "outname:")
		r = cli.Run(cli.Opt{Stdin: []byte(c.Stdin), Dir: dir}, append(append([]string{}, c.Args...), "-o", "./"+name)...)
		if b, err := os.ReadFile(filepath.Join(dir, name)); err == nil && r.OK() {
			r.Stdout = b
		} else if r.OK() {
			r.Stdout = []byte("(no file of that name was written)")
		}
	}
	c.Shell = fmt.Sprintf("crd %s  vs  crd %s %s [%s]", strings.Join(c.Args, " "), strings.Join(c.Args, " "), strings.Join(c.Extra, " "), c.How)
	if r.TimedOut || r.Crashed() || r.Exit != base.Exit || !bytes.Equal(r.Stdout, base.Stdout) {
		e.R.Fail(ev.Fail{Class: "C09/not-neutral/" + strings.SplitN(c.How, ":", 2)[0] + "/" + cmdKey(c.Args), Msg: fmt.Sprintf("crd %s: %s %v changes the result: exit %d vs %d, %s; %s", strings.Join(c.Args, " "), c.How, c.Extra, base.Exit, r.Exit, describeDiff(base.Stdout, r.Stdout), firstLine(r.Stderr)), Kind: "neutral", Case: c})
		return
	}
	e.R.Outcome(c.How)
}

func c09Neutral(e *Env, text string) {
	var cases []c09NeutralCase
	writeCmds := [][]string{{"write"}, {"write", "event"}, {"write", "parse"}, {"write", "conv", "-c", "cmt"}}
	neutral := [][]string{{"--bpm", "0"}, {"--key", ""}, {"-k", ""}, {"--velocity", ""}, {"--meter", ""}, {"-o", ""}, {"--output", ""}, {"--track", "1"}, {"--program", "0"}, {"--instrument", "Piano"},
		{"--bpm", "0", "--key", "", "--velocity", "", "--meter", ""}, {"--debug=false"}}
	for _, cmd := range writeCmds {
		for _, n := range neutral {
			if len(n) == 0 {
				continue
			}
			cases = append(cases, c09NeutralCase{Args: cmd, Extra: n, Stdin: c09ValidDoc, How: "flags"})
		}
	}
	for _, n := range [][]string{{"--key", ""}, {"-k", ""}, {"-o", ""}, {"--debug=false"}} {
		cases = append(cases, c09NeutralCase{Args: []string{"text", "conv", "syllable"}, Extra: n, Stdin: text, How: "flags"})
	}
	for _, cmd := range append(append([][]string{}, writeCmds...), []string{"text", "parse"}, []string{"text", "conv", "syllable"}, []string{"text", "conv", "degree"}) {
		cases = append(cases, c09NeutralCase{Args: cmd, How: "devnull"})
	}
	names := []string{"a b.yml", "jazz[v2].yml", "star*.yml", "what?.yml", "-dash.yml", "--double.yml", "é♭.yml", "tab\tname.yml", "semi;colon.yml", "$HOME.yml", "~tilde.yml", "{a,b}.yml", "quote'.yml", strings.Repeat("long", 60) + ".yml", ".hidden", "back\\slash.yml", "percent%s.yml", "#hash.yml"}
	for _, nm := range names {
		for _, cmd := range writeCmds[:2] {
			cases = append(cases, c09NeutralCase{Args: cmd, Stdin: c09ValidDoc, How: "filename:" + nm})
			cases = append(cases, c09NeutralCase{Args: cmd, Stdin: c09ValidDoc, How: "outname:" + nm})
		}
		cases = append(cases, c09NeutralCase{Args: []string{"text", "conv", "syllable"}, Stdin: text, How: "filename:" + nm})
		if strings.Contains(nm, ",") {
			continue // --chord/--attr are comma-separated lists (pflag StringSlice): a comma cannot be part of a name there
		}
		cases = append(cases, c09NeutralCase{Args: []string{"info", "chord", "list"}, How: "dictname:" + nm})
		cases = append(cases, c09NeutralCase{Args: []string{"write", "event"}, Stdin: doc1ForNames, How: "dictname:" + nm})
	}
	mc.ParFor(len(cases), func(i int) {
		c09NeutralEval(e, cases[i])
		e.R.Trace(1)
		e.R.NonTrivialN(1)
	})
	e.R.AddPart(ev.Part{Name: "neutral-arguments-cli", Enumerated: fmt.Sprintf("real binary, %d comparisons with the plain run: every flag of write / write event / write parse / write conv / text conv set to its empty or zero default (alone and together); an empty stdin given as /dev/null instead of an empty pipe on every reading command; FILE, -o, --chord named with each of %d awkward names (space, [ ], *, ?, leading - and --, non-ASCII, tab, ;, $, ~, {,}, quote, 244 characters, dot file, backslash, %%, #)", len(cases), len(names)), Executions: int64(len(cases)), Exhaustive: true})
}

// goyaccDebugOnly reports whether every line is a goyacc debug line ("state-N saw TOKEN", "error recovery ...").
func goyaccDebugOnly(b []byte) bool {
	for _, l := range strings.Split(strings.TrimSpace(string(b)), "\n") {
		if !(strings.HasPrefix(l, "state-") && strings.Contains(l, " saw ")) && !strings.HasPrefix(l, "error recovery") && !strings.HasPrefix(l, "saw ") {
			return false
		}
	}
	return true
}

func c09CrashKind(stderr []byte) string {
	if bytes.Contains(stderr, []byte("(PANIC=")) {
		return "panic-inside-formatting"
	}
	s := string(stderr)
	switch {
	case strings.Contains(s, "nil pointer"):
		return "nil-pointer"
	case strings.Contains(s, "stack overflow"):
		return "stack-overflow"
	case strings.Contains(s, "Unknown scale"):
		return "unknown-scale"
	case strings.Contains(s, "out of range"):
		return "index-out-of-range"
	case strings.Contains(s, "out of memory"):
		return "out-of-memory"
	}
	return "panic"
}

func firstLineWith(b []byte, subs ...string) string {
	for _, l := range strings.Split(string(b), "\n") {
		for _, s := range subs {
			if strings.Contains(l, s) {
				return trunc(strings.TrimSpace(l), 200)
			}
		}
	}
	return firstLine(b)
}

func trunc(s string, n int) string {
	if len(s) > n {
		return s[:n] + "…"
	}
	return s
}

// in-process: termination and absence of panics of the text path
func c09TextLib(e *Env, text string) {
	e.R.Eval(1)
	fail := func(class, msg string) {
		e.R.Fail(ev.Fail{Class: class, Msg: fmt.Sprintf("chord text %q: %s", text, msg), Kind: "text-lib", Case: textCase{text}})
	}
	p := implParse(text)
	if p.Hang {
		fail("C09/hang/text-parse/eof-inside-"+endsInside(text), "the lexer never terminates")
		return
	}
	if p.Panic != "" {
		fail("C09/crash/text-parse/panic", p.Panic)
		return
	}
	for _, mode := range []string{"degree", "syllable"} {
		r := runConv("lib", text, mode, "")
		if r.Hang {
			fail("C09/hang/text-conv-"+mode, r.Err)
		} else if r.Crashed {
			fail("C09/crash/text-conv-"+mode+"/panic", r.Err)
		}
	}
	if p.Accepted {
		e.R.Outcome("accepted")
	}
}

// in-process: termination and absence of panics of the write path
func c09YAMLLib(e *Env, doc string) {
	e.R.Eval(1)
	r := runWrite("lib", doc, writeCfg{})
	if r.Crashed {
		kind := "panic"
		if strings.Contains(r.Err, "Unknown scale") {
			kind = "unknown-scale"
		}
		e.R.Fail(ev.Fail{Class: "C09/crash/write/" + kind, Msg: fmt.Sprintf("instances YAML %q: %s", doc, r.Err), Kind: "yaml-lib", Case: textCase{doc}})
	}
	if r.Err == "" {
		e.R.Outcome("written")
	}
}

const (
	c09ValidDoc = "- chord:\n    degree: \"1\"\n    name: \"7\"\n    base: \"3\"\n  values:\n    - \"1\"\n    - \"1/2\"\n  bpm: 120\n  velocity: f\n  meter: \"3/4\"\n  key: \"Am\"\n  meta:\n    txt: hi\n- values:\n    - 2\n"
	c09Chords   = "- name: UserA\n  meta:\n    display: ua\n  extends: MinorTriad\n  attributes:\n    - Major6\n"
	c09Attrs    = "- name: UA\n  degree: \"#11\"\n"
)

func c09Mutants(seed string, alphabet []string) []string {
	rs := []rune(seed)
	seen := map[string]bool{}
	var out []string
	add := func(s string) {
		if !seen[s] && s != seed {
			seen[s] = true
			out = append(out, s)
		}
	}
	for i := 0; i <= len(rs); i++ {
		add(string(rs[:i])) // truncation
		if i < len(rs) {
			add(string(rs[:i]) + string(rs[i+1:])) // deletion
		}
		for _, a := range alphabet {
			add(string(rs[:i]) + a + string(rs[i:])) // insertion
			if i < len(rs) {
				add(string(rs[:i]) + a + string(rs[i+1:])) // replacement
			}
		}
	}
	return out
}

func runC09(e *Env) {
	e.R.Rule = "bounded-exhaustive short inputs (chord text and instances YAML) on every command that reads them, all one-deviation byte mutants (truncation, deletion, replacement and insertion by each of 20 alphabet bytes at every position) of valid chord texts, instance documents and dictionary files, the complete product of the nonsense table (value x channel {text metadata, YAML field, flag} x command), a flag-value table, through the real binary; oracle: terminates, no panic/fatal error/signal, exit 0 or (exit != 0, diagnostic on stderr, nothing on stdout, -o file empty or absent); nonsense must make the first interpreting stage fail and never reach a MIDI file. distinct = (command, input); non-trivial = every run (each is judged by the failure-shape oracle)"
	e.R.Assume("hang watchdog: 10 s per process, a timeout is re-run 3x at 30 s and only a reproducible timeout counts; in-process non-termination is detected without a clock (256 polls of the exhausted input)")
	e.R.Exclude("inputs longer than the stated bounds; out-of-range pitches (gomidi clamps them; C01 is stated for chords inside the MIDI range); values the SMF format cannot state (tempo < 4 bpm, odd meters, over-long delays) are judged by C07/C02/C08, which demand a refusal")
	var cases []c09Case
	add := func(label, expect, stdin string, args ...string) {
		cases = append(cases, c09Case{Label: label, Args: args, Stdin: stdin, Expect: expect})
	}

	// (a) short inputs
	textAlpha := append(append([]string{}, c04Alphabet...), "\x00", "\xff", "\xc3", "♯", "\r")
	var shortTexts []string
	var gen func(s string, n int, alpha []string, out *[]string)
	gen = func(s string, n int, alpha []string, out *[]string) {
		*out = append(*out, s)
		if n == 0 {
			return
		}
		for _, a := range alpha {
			gen(s+a, n-1, alpha, out)
		}
	}
	tl := 2
	if e.Thorough {
		tl = 3
	}
	gen("", tl, textAlpha, &shortTexts)
	for _, t := range shortTexts {
		add("short-text", "any", t, "text", "parse")
		add("short-text", "any", t, "text", "conv", "degree")
		add("short-text", "any", t, "text", "conv", "syllable")
	}
	var targets []string
	gen("", 2, c04Alphabet, &targets)
	targets = append(targets, "R[1]", "C[1]", "Cm R", "R R", "C D", "Cm/", "C_", "R/C", "Rm", "C/R", "C{a=b}", "Cm7b5/E", "♯", "C♯m")
	for _, t := range targets {
		add("describe-target", "any", "", "info", "chord", "describe", "-t", t)
	}
	for _, t := range []string{"R", "C", "", "Major3", "Perfect1", "major3", "Major3 ", "Major", "3"} {
		for _, r := range []string{"C", "R", "", "H", "C#b", "Cbb", "c", "♯"} {
			add("describe-target", "any", "", "info", "attr", "describe", "-t", t, "-r", r)
		}
	}
	yamlAlpha := []string{"-", ":", " ", "\n", "a", "1", "[", "]", "{", "}", "\"", "&", "*", "!", "|"}
	var shortYAML []string
	gen("", 2, yamlAlpha, &shortYAML)
	for _, y := range shortYAML {
		add("short-yaml", "any", y, "write")
		add("short-yaml", "any", y, "write", "event")
		add("short-yaml", "any", y, "write", "parse")
		add("short-yaml", "any", y, "write", "conv", "-c", "cmt")
	}
	nShort := len(cases)

	// (b) one-deviation mutants of valid seeds
	mutAlpha := []string{"{", "}", "[", "]", ",", "=", "/", "_", ";", "#", "b", "m", "0", "1", "-", ":", " ", "\n", "\"", "\xff"}
	textSeeds := []struct{ text, mode string }{
		{"C#m7/E[1,1/2]{key=A,txt=a b} R[2] Bb_7[4]{vel=ff}", "syllable"},
		{"3bm7/5[1]{bpm=90} ;c\n1[2]", "degree"},
		{"R[1] G_7[1/3]{mtr=3/4}", "syllable"},
	}
	for si, s := range textSeeds {
		if si > 0 && !e.Thorough {
			continue
		}
		for _, m := range c09Mutants(s.text, mutAlpha) {
			add("mutant-text", "any", m, "text", "conv", s.mode)
			if e.Thorough {
				add("mutant-text", "any", m, "text", "parse")
			}
		}
	}
	yamlSeeds := []string{c09ValidDoc, "- chord: {degree: b3, name: m7}\n  values: [1, 1/3]\n  key: Ebm\n", "- values: [\"2\"]\n  bpm: 77\n  meta: {mrk: x}\n"}
	for si, s := range yamlSeeds {
		if si != 1 && !e.Thorough {
			continue
		}
		for _, m := range c09Mutants(s, mutAlpha) {
			add("mutant-yaml", "any", m, "write")
			if e.Thorough {
				add("mutant-yaml", "any", m, "write", "conv", "-c", "cmt")
			}
		}
	}
	doc1 := "- chord:\n    degree: \"1\"\n    name: \"ua\"\n  values:\n    - \"1\"\n"
	for _, m := range c09Mutants(c09Chords, mutAlpha) {
		cases = append(cases, c09Case{Label: "mutant-dictionary", Args: []string{"write", "--chord", "{DIR}/c.yml"}, Stdin: doc1, Files: map[string]string{"c.yml": m}, Expect: "any"})
	}
	if e.Thorough {
		for _, m := range c09Mutants(c09Attrs, mutAlpha) {
			cases = append(cases, c09Case{Label: "mutant-dictionary", Args: []string{"info", "attr", "describe", "-t", "UA", "--attr", "{DIR}/a.yml"}, Files: map[string]string{"a.yml": m}, Expect: "any"})
		}
	}
	nMut := len(cases) - nShort

	// (c) the nonsense table
	nonsense := func(label, stdin string, args []string, pipe []string) {
		cases = append(cases, c09Case{Label: label, Args: args, Stdin: stdin, Expect: "fail", Pipe: pipe})
		cases = append(cases, c09Case{Label: label, Args: args, Stdin: stdin, Expect: "fail", Pipe: pipe, OutArg: true})
	}
	convS := []string{"text", "conv", "syllable"}
	convD := []string{"text", "conv", "degree"}
	// text channel
	for _, v := range []string{"[0]", "[0/4]", "[1/0]", "[1,0]", "[00]"} {
		nonsense("zero-duration/text", "C"+v, convS, nil)
		nonsense("zero-duration/text", "1"+v, convD, nil)
		nonsense("zero-duration/text", "C[1] R"+v, convS, nil)
	}
	for _, v := range []string{"bpm=0", "bpm=abc", "bpm=-1", "vel=xx", "vel=loud", "mtr=0/4", "mtr=4/0", "mtr=x", "mtr=/", "key=H", "key=c", "key=Cmaj", "key=xxG#yy", "key=Fb", "key=E#m", "key=Abm", "key=XAm", "key=xC", "key=Key of G", "key=in F", "key=E#Gb", "key=Amx", "key=Am7", "key=CC", "key=mC"} {
		label := strings.SplitN(v, "=", 2)[0] + "/text-metadata"
		if strings.HasPrefix(v, "key=") {
			label = "key-without-scale/text-metadata"
		}
		nonsense(label, "C[1]{"+v+"}", convS, nil)
		nonsense(label, "R[1]{"+v+"} C[1]", convS, nil)
		if v == "key=Fb" || v == "key=E#m" || v == "key=Abm" {
			// in degree text nothing needs the scale before `write`: conv may pass it on, write must refuse it
			nonsense(label, "1[1]{"+v+"}", convD, []string{"write"})
			nonsense(label, "R[1]{"+v+"} 1[1]", convD, []string{"write"})
		} else {
			nonsense(label, "1[1]{"+v+"}", convD, nil)
		}
	}
	for _, v := range []string{"txt=a,bpm=0", "bpm=0,txt=a", "key=Am,vel=xx", "vel=ff,mtr=4/0", "lic=x,key=Cmaj,mrk=y", "bpm=120,bpm=0"} {
		nonsense("combined-metadata/text-metadata", "C[1]{"+v+"}", convS, nil)
		nonsense("combined-metadata/text-metadata", "1[1] R[1]{"+v+"}", convD, nil)
	}
	nonsense("unknown-symbol/text", "Cxyz[1]", convS, []string{"write"})
	nonsense("unknown-symbol/text", "1_99[1]", convD, []string{"write"})
	nonsense("mixed-notation/text", "C[1] 2[1]", convS, nil)
	nonsense("mixed-notation/text", "C[1] 2[1]", convD, nil)
	nonsense("mixed-notation/text", "1/C[1]", convD, nil)
	nonsense("mixed-notation/text", "C/1[1]", convS, nil)
	for _, v := range []string{"", " ", ";c\n", "\n\n"} {
		nonsense("empty-piece/text", v, convS, nil)
		nonsense("empty-piece/text", v, convD, nil)
		nonsense("empty-piece/text", v, []string{"text", "parse"}, nil)
	}
	// YAML channel: the commands that produce MIDI have to refuse
	inst := func(extra string, values string) string {
		return "- chord:\n    degree: \"1\"\n    name: \"\"\n" + values + extra
	}
	okValues := "  values:\n    - \"1\"\n"
	for _, cmd := range [][]string{{"write"}, {"write", "event"}} {
		for _, v := range []string{"  values:\n    - \"0\"\n", "  values:\n    - \"0/4\"\n", "  values:\n    - \"1/0\"\n", "  values: []\n", "", "  values:\n    - \"1\"\n    - \"0\"\n"} {
			nonsense("bad-durations/yaml", inst("", v), cmd, nil)
			nonsense("bad-durations/yaml", "- values:\n    - \"1\"\n"+inst("", v), cmd, nil)
		}
		for _, v := range []string{"  bpm: 0\n", "  bpm: -1\n", "  bpm: x\n", "  velocity: xx\n", "  velocity: \"\"\n", "  meter: \"0/4\"\n", "  meter: \"4/0\"\n", "  meter: x\n", "  key: H\n", "  key: c\n", "  key: Cmaj\n", "  key: Fb\n", "  key: E#m\n", "  key: Abm\n", "  key: xxG#yy\n", "  key: XAm\n", "  key: xC\n", "  key: Key of G\n", "  key: in F\n", "  key: E#Gb\n", "  key: Amx\n", "  key: Am7\n", "  key: CC\n", "  key: mC\n"} {
			label := strings.TrimSpace(strings.SplitN(v, ":", 2)[0]) + "/yaml"
			if strings.Contains(v, "key:") {
				label = "key-without-scale/yaml"
			}
			nonsense(label, inst(v, okValues), cmd, nil)
			nonsense(label, "- values:\n    - \"1\"\n- values:\n    - \"1\"\n"+strings.Replace(v, "  ", "  ", 1)+inst("", okValues), cmd, nil)
		}
		// an instance without durations that is a rest
		for _, v := range []string{"- values: []\n", "- bpm: 90\n", "- value:\n    - \"1\"\n", "- values:\n", "- meta:\n    txt: a\n", "- key: C\n"} {
			nonsense("bad-durations/yaml", inst("", okValues)+v+inst("", okValues), cmd, nil)
			nonsense("bad-durations/yaml", inst("", okValues)+v, cmd, nil)
			nonsense("bad-durations/yaml", v+inst("", okValues), cmd, nil)
		}
		nonsense("unknown-symbol/yaml", "- chord:\n    degree: \"1\"\n    name: \"xyz\"\n"+okValues, cmd, nil)
		nonsense("bad-degree/yaml", "- chord:\n    degree: \"x\"\n    name: \"\"\n"+okValues, cmd, nil)
		nonsense("bad-degree/yaml", "- chord:\n    name: \"\"\n"+okValues, cmd, nil)
		nonsense("bad-degree/yaml", "- chord: {}\n"+okValues, cmd, nil)
		nonsense("bad-degree/yaml", "- chord:\n    degree: \"\"\n    name: \"\"\n"+okValues, cmd, nil)
		nonsense("bad-degree/yaml", "- chord:\n    degree: \"1\"\n    name: \"\"\n    base: \"\"\n"+okValues, cmd, nil)
		nonsense("bad-degree/yaml", "- chord:\n    degree: \"0\"\n    name: \"\"\n"+okValues, cmd, nil)
		nonsense("bad-degree/yaml", "- chord:\n    degree: \"1\"\n    name: \"\"\n    base: \"q\"\n"+okValues, cmd, nil)
		for _, v := range []string{"", "[]", "null", "{}", "- \n"} {
			nonsense("empty-piece/yaml", v, cmd, nil)
		}
		// flag channel
		for _, f := range [][]string{{"--velocity", "xx"}, {"--meter", "0/4"}, {"--meter", "4/0"}, {"--meter", "x"}, {"--key", "H"}, {"--key", "c"}, {"--key", "Cmaj"}, {"--key", "Fb"}, {"--key", "E#m"}, {"--key", "Abm"}, {"--key", "XAm"}, {"--key", "xC"}, {"--key", "Key of G"}, {"--key", "E#Gb"}, {"--key", "Amx"}, {"--key", "CC"}, {"--track", "0"}, {"--track", "-1"}} {
			label := strings.TrimLeft(f[0], "-") + "/flag"
			if f[0] == "--key" {
				label = "key-without-scale/flag"
			}
			nonsense(label, inst("", okValues), append(append([]string{}, cmd...), f...), nil)
		}
	}
	for _, k := range []string{"H", "c", "Cmaj", "Fb", "E#m", "Abm", "xxG#yy", "XAm", "xC", "Key of G", "in F", "E#Gb", "Amx", "Am7", "CC", "mC", "♭B"} {
		nonsense("key-without-scale/flag", "C[1]", []string{"text", "conv", "syllable", "--key", k}, nil)
		nonsense("key-without-scale/flag", "", []string{"info", "key", "describe", "--key", k}, nil)
		nonsense("key-without-scale/flag", "", []string{"info", "key", "conv", "--key", k, "-c", "d"}, nil)
	}
	nonsense("unknown-modifier/flag", c09ValidDoc, []string{"write", "conv", "-c", "zzz"}, nil)
	nonsense("unknown-modifier/flag", c09ValidDoc, []string{"write", "conv", "-c", "cmt,zzz"}, nil)
	nonsense("unknown-modifier/flag", c09ValidDoc, []string{"write", "conv"}, nil)
	nonsense("unknown-conversion/flag", "", []string{"info", "key", "conv", "--key", "C", "-c", "x"}, nil)
	nonsense("unknown-conversion/flag", "", []string{"info", "key", "conv", "--key", "C", "-c", "dxd"}, nil)
	nonsense("unknown-target/flag", "", []string{"info", "attr", "describe", "-t", "Nope"}, nil)
	nonsense("unknown-target/flag", "", []string{"info", "attr", "describe", "-t", "Major3", "-r", "H"}, nil)
	nonsense("unknown-target/flag", "", []string{"info", "chord", "describe", "-t", "Cxyz"}, nil)
	nonsense("unknown-target/flag", "", []string{"info", "chord", "describe", "-t", "1m7"}, nil)
	nonsense("unknown-target/flag", "", []string{"info", "chord", "describe", "-t", ""}, nil)
	// inconsistent dictionaries on every command that builds the dictionary
	badDicts := map[string]string{
		"dangling-attribute":    "- name: UserA\n  meta:\n    display: ua\n  attributes:\n    - Nope\n",
		"dangling-extends":      "- name: UserA\n  meta:\n    display: ua\n  extends: Nope\n",
		"cyclic-extends-1":      "- name: UserA\n  meta:\n    display: ua\n  extends: UserA\n",
		"cyclic-extends-2":      "- name: UserA\n  meta:\n    display: ua\n  extends: ub\n- name: UserB\n  meta:\n    display: ub\n  extends: UserA\n",
		"cyclic-extends-tail-1": "- name: Tail\n  meta:\n    display: tl\n  extends: Self\n- name: Self\n  meta:\n    display: sf\n  extends: Self\n",
		"cyclic-extends-tail-2": "- name: Tail\n  meta:\n    display: tl\n  extends: LoopA\n- name: LoopA\n  meta:\n    display: la\n  extends: LoopB\n- name: LoopB\n  meta:\n    display: lb\n  extends: la\n",
		"cyclic-extends-3":      "- name: A1\n  meta:\n    display: a1\n  extends: A2\n- name: A2\n  meta:\n    display: a2\n  extends: A3\n- name: A3\n  meta:\n    display: a3\n  extends: a1\n",
		"unnamed":               "- name: \"\"\n  meta:\n    display: ua\n  attributes:\n    - Major6\n",
		"no-content":            "- name: UserA\n  meta:\n    display: ua\n",
		"not-a-list":            "name: UserA\n",
		"binary":                "\x00\x01\xff\xfe",
	}
	for name, d := range badDicts {
		for _, cmd := range [][]string{{"write"}, {"write", "event"}, {"write", "conv", "-c", "cmt"}, {"info", "chord", "describe", "-t", "C"}, {"info", "attr", "describe", "-t", "Major3"}} {
			cases = append(cases, c09Case{Label: "inconsistent-dictionary/" + name, Args: append(append([]string{}, cmd...), "--chord", "{DIR}/c.yml"), Stdin: inst("", okValues), Files: map[string]string{"c.yml": d}, Expect: "fail"})
		}
	}
	// file-level problems are refused by the listing commands too (they read the files without resolving them)
	for _, name := range []string{"unnamed", "no-content", "not-a-list", "binary"} {
		cases = append(cases, c09Case{Label: "inconsistent-dictionary/" + name + "/listing", Args: []string{"info", "chord", "list", "--chord", "{DIR}/c.yml"}, Files: map[string]string{"c.yml": badDicts[name]}, Expect: "fail"})
	}
	for _, cmd := range [][]string{{"info", "chord", "list", "--chord"}, {"info", "attr", "list", "--attr"}, {"info", "chord", "describe", "-t", "C", "--chord"}, {"info", "attr", "describe", "-t", "Major3", "--attr"}, {"write", "conv", "-c", "cmt", "--attr"}} {
		cases = append(cases, c09Case{Label: "inconsistent-dictionary/missing-file", Args: append(append([]string{}, cmd...), "{DIR}/nope.yml"), Stdin: inst("", okValues), Expect: "fail"})
		cases = append(cases, c09Case{Label: "inconsistent-dictionary/directory", Args: append(append([]string{}, cmd...), "{DIR}"), Stdin: inst("", okValues), Expect: "fail"})
		cases = append(cases, c09Case{Label: "inconsistent-dictionary/broken-yaml", Args: append(append([]string{}, cmd...), "{DIR}/b.yml"), Stdin: inst("", okValues), Files: map[string]string{"b.yml": "- name: [unclosed\n"}, Expect: "fail"})
	}
	cases = append(cases, c09Case{Label: "inconsistent-dictionary/unnamed-attribute/listing", Args: []string{"info", "attr", "list", "--attr", "{DIR}/a.yml"}, Files: map[string]string{"a.yml": "- name: \"\"\n  degree: \"3\"\n"}, Expect: "fail"})
	cases = append(cases, c09Case{Label: "inconsistent-dictionary/unnamed-attribute", Args: []string{"write", "--attr", "{DIR}/a.yml"}, Stdin: inst("", okValues), Files: map[string]string{"a.yml": "- name: \"\"\n  degree: \"3\"\n"}, Expect: "fail"})
	cases = append(cases, c09Case{Label: "inconsistent-dictionary/missing-file", Args: []string{"write", "--chord", "{DIR}/nope.yml"}, Stdin: inst("", okValues), Expect: "fail"})
	cases = append(cases, c09Case{Label: "inconsistent-dictionary/directory", Args: []string{"write", "--chord", "{DIR}"}, Stdin: inst("", okValues), Expect: "fail"})
	// the same refusals when the input arrives as a FILE argument instead of stdin
	for _, c := range append([]c09Case{}, cases[nShort+nMut:]...) {
		if c.Stdin == "" || c.OutArg || len(c.Files) > 0 || len(c.Pipe) > 0 {
			continue
		}
		fc := c
		fc.Label += "/file-argument"
		fc.Files = map[string]string{"input.txt": c.Stdin}
		fc.Stdin = "- chord:\n    degree: \"1\"\n    name: \"\"\n  values:\n    - \"1\"\n"
		if c.Args[0] == "text" {
			fc.Stdin = "C[1]"
		}
		// the positional FILE goes right after the subcommand words
		n := 0
		for n < len(c.Args) && !strings.HasPrefix(c.Args[n], "-") {
			n++
		}
		fc.Args = append(append(append([]string{}, c.Args[:n]...), "{DIR}/input.txt"), c.Args[n:]...)
		cases = append(cases, fc)
	}
	// unusual but well-formed dictionary files: robustness only
	deep := func(n int) string {
		var b strings.Builder
		for i := 0; i < n; i++ {
			fmt.Fprintf(&b, "- name: Deep%d\n  meta:\n    display: d%d\n", i, i)
			if i == 0 {
				b.WriteString("  attributes:\n    - Perfect1\n")
			} else {
				fmt.Fprintf(&b, "  extends: Deep%d\n  attributes:\n    - Major3\n", i-1)
			}
		}
		return b.String()
	}
	oddDicts := map[string]string{
		"deep-extends-300": deep(300),
		"alias-cycle":      "- &a\n  name: UserA\n  meta: {display: ua}\n  attributes: *a\n",
		"anchors":          "- name: UserA\n  meta: &m {display: ua}\n  attributes: &x [Major3]\n- name: UserB\n  meta: {display: ub}\n  attributes: *x\n",
		"empty-attribute":  "- name: UserA\n  meta: {display: ua}\n  attributes: [\"\"]\n",
		"null-entry":       "- name: UserA\n  meta: {display: ua}\n  attributes: [Major3]\n-\n",
		"numbers":          "- name: 1\n  meta: {display: 2}\n  attributes: [3]\n",
		"empty-file":       "",
	}
	// a chord of very many tones is unusual, not wrong: 40 and 67 tones (every built-in attribute)
	if names := c09AttrNames(e); len(names) >= 40 {
		for _, n := range []int{31, 32, 33, 40, len(names)} {
			d := fmt.Sprintf("- name: Wide\n  meta:\n    display: wd\n  attributes:\n    - %s\n", strings.Join(names[:n], "\n    - "))
			doc := "- chord:\n    degree: \"1\"\n    name: \"wd\"\n  values:\n    - \"1\"\n- chord:\n    degree: \"4\"\n    name: \"Wide\"\n    base: \"5\"\n  values:\n    - \"1\"\n"
			for _, cmd := range [][]string{{"write"}, {"write", "event"}, {"write", "--track", "3"}, {"write", "event", "--track", "40"}, {"info", "chord", "describe", "-t", "C_wd"}} {
				cases = append(cases, c09Case{Label: "valid", Args: append(append([]string{}, cmd...), "--chord", "{DIR}/c.yml"), Stdin: doc, Files: map[string]string{"c.yml": d}, Expect: "ok"})
			}
		}
	}
	for name, d := range oddDicts {
		for _, cmd := range [][]string{{"write"}, {"info", "chord", "describe", "-t", "C_d299"}, {"info", "chord", "list"}} {
			cases = append(cases, c09Case{Label: "odd-dictionary/" + name, Args: append(append([]string{}, cmd...), "--chord", "{DIR}/c.yml"), Stdin: inst("", okValues), Files: map[string]string{"c.yml": d}, Expect: "any"})
		}
	}
	for _, a := range []string{"- name: X\n  degree: \"0\"\n", "- name: X\n  degree: \"\"\n", "- name: X\n", "- name: X\n  degree: [1]\n", "- name: X\n  degree: \"4\"\n- name: X\n  degree: \"5\"\n", "-\n"} {
		cases = append(cases, c09Case{Label: "odd-dictionary/attribute", Args: []string{"info", "attr", "describe", "-t", "X", "--attr", "{DIR}/a.yml"}, Files: map[string]string{"a.yml": a}, Expect: "any"})
		cases = append(cases, c09Case{Label: "odd-dictionary/attribute", Args: []string{"write", "--attr", "{DIR}/a.yml"}, Stdin: inst("", okValues), Files: map[string]string{"a.yml": a}, Expect: "any"})
	}
	nTable := len(cases) - nShort - nMut

	// (d) flag values: robustness only
	vals := []string{"é", "ép", "♭p", "日本語", "p\u0301", "", "0", "-1", "abc", "1e3", "18446744073709551615", "18446744073709551616", strings.Repeat("9", 300), "\xff\xfe", "C", "1/2"}
	flagSets := []struct {
		cmd   []string
		stdin string
		flags []string
	}{
		{[]string{"write"}, c09ValidDoc, []string{"--bpm", "--meter", "--key", "--velocity", "--track", "--instrument", "--program", "--attr", "--chord", "-o"}},
		{[]string{"write", "event"}, c09ValidDoc, []string{"--bpm", "--track", "--program"}},
		{[]string{"text", "conv", "syllable"}, "C[1]", []string{"--key"}},
		{[]string{"info", "key", "conv"}, "", []string{"--key", "-c"}},
		{[]string{"info", "key", "describe"}, "", []string{"--key"}},
		{[]string{"info", "attr", "describe"}, "", []string{"-t", "-r"}},
		{[]string{"info", "chord", "describe"}, "", []string{"-t"}},
		{[]string{"gen", "attr"}, "", []string{"-d"}},
	}
	for _, fs := range flagSets {
		for _, f := range fs.flags {
			for _, v := range vals {
				if f == "-d" && (len(v) > 5 || v == "1e3") {
					continue // gen attr -d <huge> legitimately generates a huge list; not an input robustness question
				}
				add("flag-value", "any", fs.stdin, append(append([]string{}, fs.cmd...), f, v)...)
			}
		}
	}
	for _, t := range []string{"2", "33", "70000"} {
		add("flag-value", "any", c09ValidDoc, "write", "--track", t)
	}
	// write play: every port name the build knows (crd midi port in / out) and some it does not
	for _, port := range []string{"", "nosuch", "testdrv-out", "testdrv-in", "0", "é"} {
		add("flag-value", "any", c09ValidDoc, "write", "play", "--port", port)
		add("flag-value", "any", c09ValidDoc, "write", "play", "-p", port, "--track", "3")
		add("flag-value", "fail", "- values: []\n", "write", "play", "-p", port)
	}
	add("flag-value", "ok", "", "midi", "port", "in")
	add("flag-value", "ok", "", "midi", "port", "out")
	add("flag-value", "any", "", "midi", "port", "nosuch")
	add("flag-value", "any", "", "midi")
	add("flag-value", "any", "", "completion", "bash")
	add("flag-value", "any", "", "completion", "nosuch")
	add("flag-value", "any", "", "help", "write", "event")
	add("flag-value", "any", "", "nosuch")
	// track counts around the 15-, 16-bit boundaries on every command that takes --track
	for _, t := range []string{"255", "256", "257", "32767", "32768", "32769", "40000", "65535", "65536"} {
		for _, cmd := range [][]string{{"write"}, {"write", "event"}, {"write", "parse"}, {"write", "conv", "-c", "cmt"}} {
			add("flag-value", "any", c09ValidDoc, append(append([]string{}, cmd...), "--track", t)...)
		}
	}
	// pairs of flags on one command line: every two flags of write / write event, each with a valid
	// and a nonsense value (all-valid lines must succeed, the others fail in the documented shape)
	type fv struct {
		flag       string
		good, bad  string
		badIsError bool
	}
	wflags := []fv{{"--bpm", "90", "2", true}, {"--meter", "3/4", "4/3", true}, {"--key", "Eb", "H", true}, {"--velocity", "mp", "xx", true},
		{"--track", "3", "0", true}, {"--program", "40", "300", true}, {"--instrument", "Organ", "", false}, {"--debug", "", "", false}}
	for _, cmd := range [][]string{{"write"}, {"write", "event"}} {
		for i := 0; i < len(wflags); i++ {
			for j := i + 1; j < len(wflags); j++ {
				for mask := 0; mask < 4; mask++ {
					args := append([]string{}, cmd...)
					expect := "ok"
					for n, f := range []fv{wflags[i], wflags[j]} {
						v := f.good
						if mask>>uint(n)&1 == 1 {
							v = f.bad
							if f.badIsError {
								expect = "fail"
							}
						}
						if f.flag == "--debug" {
							args = append(args, f.flag)
						} else {
							args = append(args, f.flag, v)
						}
					}
					label := "flag-pair"
					if expect == "fail" {
						label = "flag-pair/nonsense"
					}
					cases = append(cases, c09Case{Label: label, Args: args, Stdin: c09ValidDoc, Expect: expect, OutArg: mask%2 == 1})
				}
			}
		}
	}
	// a flag given many times: more dictionary files than there are CPUs, buffers or workers
	for _, n := range []int{2, 3, 17, 40, 130, 300} {
		files := map[string]string{}
		var ca, aa []string
		for i := 0; i < n; i++ {
			files[fmt.Sprintf("c%d.yml", i)] = fmt.Sprintf("- name: Many%d\n  meta:\n    display: my%d\n  extends: MajorTriad\n  attributes:\n    - MA%d\n", i, i, i)
			files[fmt.Sprintf("a%d.yml", i)] = fmt.Sprintf("- name: MA%d\n  degree: \"%d\"\n", i, 9+i%7)
			ca = append(ca, "--chord", fmt.Sprintf("{DIR}/c%d.yml", i))
			aa = append(aa, "--attr", fmt.Sprintf("{DIR}/a%d.yml", i))
		}
		doc := fmt.Sprintf("- chord:\n    degree: \"1\"\n    name: \"my%d\"\n  values:\n    - \"1\"\n", n-1)
		for _, cmd := range [][]string{{"write"}, {"write", "event"}, {"info", "chord", "list"}, {"info", "chord", "describe", "-t", fmt.Sprintf("C_my%d", n-1)}} {
			cases = append(cases, c09Case{Label: "flag-value", Args: append(append(append([]string{}, cmd...), ca...), aa...), Stdin: doc, Files: files, Expect: "ok"})
		}
		cases = append(cases, c09Case{Label: "flag-value", Args: append([]string{"info", "attr", "list"}, aa...), Files: files, Expect: "ok"})
	}
	// --debug must not change the failure shape
	for _, t := range []string{"C[1] ]", "C[", "C[1]{a", "1[1] 2", "]"} {
		add("debug", "fail", t, "text", "parse", "--debug")
		add("debug", "fail", t, "text", "conv", "syllable", "--debug")
		add("debug", "fail", t, "text", "conv", "degree", "--debug")
	}
	add("debug", "fail", "- values: []\n", "write", "--debug")
	add("debug", "fail", "C[1]{bpm=0}", "text", "conv", "syllable", "--debug")
	add("debug", "ok", c09ValidDoc, "write", "--debug")
	add("debug", "ok", textSeeds[0].text, "text", "conv", "syllable", "--debug")
	// large inputs must be handled promptly
	bigText := strings.Repeat("C/E[1,1/2]{txt=a} ", 4000)
	bigDeg := strings.Repeat("5_7/3[1] 1[2] ", 6000)
	bigDoc := strings.Repeat("- chord:\n    degree: \"5\"\n    name: \"7\"\n  values:\n    - \"1\"\n- values:\n    - \"1/3\"\n", 3000)
	add("large-input", "ok", bigText, "text", "conv", "syllable")
	add("large-input", "ok", bigText, "text", "parse")
	add("large-input", "ok", bigDeg, "text", "conv", "degree")
	add("large-input", "ok", bigDoc, "write")
	add("large-input", "ok", bigDoc, "write", "event")
	add("large-input", "ok", bigDoc, "write", "conv", "-c", "cmt")
	add("large-input", "ok", bigDoc, "write", "parse", "--track", "16")
	add("large-input", "any", bigText+"]", "text", "conv", "syllable")
	add("large-input", "any", strings.Repeat("{", 50000), "text", "parse")
	add("large-input", "any", strings.Repeat("C", 50000), "text", "parse")
	add("large-input", "any", "C"+strings.Repeat("m", 100000)+"[1]", "text", "conv", "syllable")
	add("large-input", "any", "C[1]{a="+strings.Repeat("x", 100000)+"}", "text", "conv", "syllable")
	add("large-input", "any", strings.Repeat("- ", 20000)+"a\n", "write")
	add("large-input", "any", strings.Repeat("[", 20000), "write")
	// very large numbers wherever a number can be written
	for _, n := range []string{"4294967295", "4294967296", "50000000", "99999999999999", "18446744073709551615", "18446744073709551616", "99999999999999999999999"} {
		add("huge-number", "any", n+"[1]", "text", "conv", "degree")
		add("huge-number", "any", n+"[1]", "text", "parse")
		add("huge-number", "any", "1/"+n+"[1]", "text", "conv", "degree")
		add("huge-number", "any", "1["+n+"]", "text", "conv", "degree")
		add("huge-number", "any", "1[1/"+n+"]", "text", "conv", "degree")
		add("huge-number", "any", "C["+n+"/"+n+"]", "text", "conv", "syllable")
		add("huge-number", "any", "C[1]{bpm="+n+"}", "text", "conv", "syllable")
		add("huge-number", "any", "C[1]{mtr="+n+"/4}", "text", "conv", "syllable")
		add("huge-number", "any", "- chord:\n    degree: \""+n+"\"\n    name: \"\"\n  values:\n    - \"1\"\n", "write")
		add("huge-number", "any", "- chord:\n    degree: \"1\"\n    name: \"\"\n    base: \"b"+n+"\"\n  values:\n    - \"1\"\n", "write")
		add("huge-number", "any", "- values:\n    - \""+n+"\"\n  bpm: "+n+"\n", "write")
		add("huge-number", "any", "- values:\n    - \"1\"\n  meter: \""+n+"/"+n+"\"\n", "write", "event")
		add("huge-number", "any", c09ValidDoc, "write", "--bpm", n)
		add("huge-number", "any", c09ValidDoc, "write", "--track", n)
		add("huge-number", "any", c09ValidDoc, "write", "--program", n)
		cases = append(cases, c09Case{Label: "huge-number", Args: []string{"info", "attr", "describe", "-t", "X", "--attr", "{DIR}/a.yml"}, Files: map[string]string{"a.yml": "- name: X\n  degree: \"" + n + "\"\n"}, Expect: "any"})
	}
	for _, d := range []string{"0", "1", "2", "21", "1000", "100000"} {
		add("huge-number", "any", "", "gen", "attr", "-d", d)
	}
	// baseline: the valid invocations themselves must succeed
	add("valid", "ok", c09ValidDoc, "write")
	add("valid", "ok", c09ValidDoc, "write", "event")
	add("valid", "ok", c09ValidDoc, "write", "parse")
	add("valid", "ok", c09ValidDoc, "write", "conv", "-c", "cmt")
	add("valid", "ok", textSeeds[0].text, "text", "conv", "syllable")
	add("valid", "ok", textSeeds[1].text, "text", "conv", "degree")
	add("valid", "ok", textSeeds[1].text, "text", "parse")
	cases = append(cases, c09Case{Label: "valid", Args: []string{"write", "--chord", "{DIR}/c.yml", "--attr", "{DIR}/a.yml"}, Stdin: doc1, Files: map[string]string{"c.yml": c09Chords, "a.yml": c09Attrs}, Expect: "ok"})
	nFlags := len(cases) - nShort - nMut - nTable
	c09OutputPaths(e, textSeeds[0].text, textSeeds[1].text)
	c09Neutral(e, textSeeds[0].text)

	mc.ParFor(len(cases), func(i int) {
		c := cases[i]
		c09Run(e, &c)
		e.R.Trace(1)
		e.R.Transition(1)
		e.R.NonTrivial(fmt.Sprint(i))
		e.R.State("cmd:" + cmdKey(c.Args))
	})
	e.R.AddPart(ev.Part{Name: "short-inputs-cli", Enumerated: fmt.Sprintf("real binary: every chord text of length <= %d over 22 symbols (C04's alphabet + NUL, 0xFF, 0xC3, ♯, CR) on text parse / conv degree / conv syllable; every YAML string of length <= 2 over 15 symbols on write / write event / write parse / write conv; every string of length <= 2 over C04's alphabet (and 14 longer ones) as the -t target of info chord describe, 9 x 8 (target, root) pairs of info attr describe", tl), Executions: int64(nShort), Exhaustive: true})
	e.R.AddPart(ev.Part{Name: "one-deviation-mutants-cli", Enumerated: fmt.Sprintf("real binary: every truncation, deletion, and replacement/insertion by each of 20 bytes at every position of %s", map[bool]string{true: "3 chord texts, 3 instance documents, a chord file and an attribute file", false: "1 chord text, 1 instance document and a chord file"}[e.Thorough]), Executions: int64(nMut), Exhaustive: true})
	e.R.AddPart(ev.Part{Name: "nonsense-table-cli", Enumerated: "real binary: {zero / zero-denominator durations, no durations, bpm 0, unknown dynamic, bad meter, unknown symbol, unknown modifier / conversion / target, keys without scale (H, c, Cmaj, Fb, E#m, Abm, and a key name with anything before, after or around it: xxG#yy, XAm, Key of G, E#Gb, Amx, CC, ...), mixed notation, empty piece, inconsistent dictionaries} x {text metadata, YAML field, flag} x every command that has to interpret it, each also with -o and with the input given as a FILE argument; nonsense that a stage may pass on is piped into `write`, which must refuse it; plus unusual dictionary files (deep extends chain, YAML anchors/alias cycle, empty/null entries) held to the failure-shape oracle", Executions: int64(nTable), Exhaustive: true})
	e.R.AddPart(ev.Part{Name: "flag-values-cli", Enumerated: "real binary: every value flag of every command x {empty, 0, -1, abc, 1e3, 2^64-1, 2^64, 300 digits, invalid UTF-8, C, 1/2}; --track 2, 33, 70000; 2..300 dictionary files on one command line; every pair of write flags x {valid, nonsense} values; valid baselines", Executions: int64(nFlags), Exhaustive: true})

	// in-process short inputs (longer than through the binary)
	var libTexts []string
	ll := 3
	if e.Thorough {
		ll = 4
	}
	gen("", ll, textAlpha, &libTexts)
	mc.ParFor(len(libTexts), func(i int) {
		c09TextLib(e, libTexts[i])
	})
	var libYAML []string
	gen("", ll+1, yamlAlpha, &libYAML)
	mc.ParFor(len(libYAML), func(i int) {
		c09YAMLLib(e, libYAML[i])
	})
	// the YAML nonsense documents and all their one-deviation mutants in-process as well
	var ymut []string
	for _, s := range yamlSeeds {
		ymut = append(ymut, c09Mutants(s, mutAlpha)...)
	}
	mc.ParFor(len(ymut), func(i int) { c09YAMLLib(e, ymut[i]) })
	var tmut []string
	for _, s := range textSeeds {
		tmut = append(tmut, c09Mutants(s.text, mutAlpha)...)
	}
	mc.ParFor(len(tmut), func(i int) { c09TextLib(e, tmut[i]) })
	e.R.AddPart(ev.Part{Name: "short-inputs-in-process", Enumerated: fmt.Sprintf("in-process, clock-free hang detection: every chord text of length <= %d over 22 symbols through the lexer/parser and both converters; every YAML string of length <= %d over 15 symbols and every one-deviation mutant of 3 instance documents through unmarshal + play.Write; every one-deviation mutant of 3 chord texts", ll, ll+1), Executions: int64(len(libTexts) + len(libYAML) + len(ymut) + len(tmut)), Exhaustive: true})
	e.R.Sample(cases[nShort+nMut+3])
	e.R.Sample(cases[nShort+5])
}
