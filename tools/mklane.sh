#!/bin/bash
# tools/mklane.sh <name>: a lane = a worktree of /repo at HEAD plus a copy of /verif whose engine module points at it
# (/var/tmp/lane-<name>/{repo,verif}); use with SEED_REPO / SEED_VERIF of seedcheck.sh and benigncheck.sh.
# Remove with: git -C /repo worktree remove --force /var/tmp/lane-<name>/repo; rm -rf /var/tmp/lane-<name>
set -e
L=/var/tmp/lane-$1
git -C /repo worktree remove --force $L/repo 2>/dev/null || true
rm -rf $L; mkdir -p $L
git -C /repo worktree add -q --detach $L/repo HEAD
rsync -a --exclude .git --exclude replay --exclude seeded --exclude benign /verif/ $L/verif/
sed -i "s|=> /repo|=> $L/repo|" $L/verif/engine/go.mod
echo $L
