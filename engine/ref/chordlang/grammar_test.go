package chordlang

import (
	"os"
	"strings"
	"testing"
)

func TestGrammarOfWorkingTree(t *testing.T) {
	const path = "/repo/input/ast/chords.y"
	if _, err := os.Stat(path); err != nil {
		t.Skip("no repository")
	}
	g, err := ReadYacc(path)
	if err != nil {
		t.Fatal(err)
	}
	p := g.BuildSLR()
	if len(p.Conflicts) != 0 {
		t.Fatalf("conflicts: %v", p.Conflicts)
	}
	for text, want := range map[string]bool{
		"C[1]": true, "R[2]": true, "C#m7/E[1,1/2]{key=A,txt=a b} R[2] Bb_7[4]": true, "2b_m/2#[2]{m=m,n=n}": true,
		"C": false, "C[1] ]": false, "C[1]{": false, "[1]": false, "C[1]{a}": false, "C_[1]": false, "": false, "C/[1]": false,
	} {
		toks, _, le := Tokenize(text)
		var k []string
		for _, tk := range toks {
			k = append(k, tk.Kind)
		}
		got := !le && p.Accepts(k)
		if got != want || got != (!le && g.Earley(k)) {
			t.Errorf("%q: SLR %v, Earley %v, want %v (%s)", text, got, g.Earley(k), want, strings.Join(k, " "))
		}
	}
}
