#!/bin/bash
# Re-runs every kept seeded change against its target check (quick tier). Takes a while.
# usage: tools/seedall.sh [pattern]
cd /verif
for d in seeded/${1:-*}; do
  id=$(basename $d); prop=$(python3 -c "import json;print(json.load(open('$d/meta.json'))['breaks_property'])")
  t=$(mktemp -d /var/tmp/seedall.XXXX); cp $d/patch.diff $t/patch1.diff; cp $d/demo.sh $t/demo1.sh 2>/dev/null; cp $d/meta.txt $t/meta1.txt 2>/dev/null
  cp $d/meta.json $t/meta.json.bak
  tools/seedcheck.sh $t 1 $id $prop | grep SEED
  rm -rf $t
done
