package timing

import "testing"

func TestTicks(t *testing.T) {
	for _, c := range []struct {
		v      []Frac
		lo, hi int64
	}{
		{[]Frac{{1, 1}}, 960, 960}, {[]Frac{{1, 3}}, 320, 320}, {[]Frac{{7, 11}}, 611, 611}, {[]Frac{{1, 7}}, 137, 137},
		{[]Frac{{1, 1920}}, 0, 1}, {[]Frac{{3, 1920}}, 1, 2}, {[]Frac{{1, 2000}}, 0, 0}, {[]Frac{{1, 3}, {1, 3}, {1, 3}}, 960, 960},
		{[]Frac{{1, 7}, {1, 7}, {1, 7}, {1, 7}}, 549, 549}, {[]Frac{{70000, 1}}, 67200000, 67200000}, {[]Frac{{1, 2}, {1, 3}}, 800, 800},
	} {
		lo, hi := Ticks(960, c.v)
		if lo != c.lo || hi != c.hi {
			t.Errorf("%v: [%d,%d], want [%d,%d]", c.v, lo, hi, c.lo, c.hi)
		}
	}
}
