package props

import (
	"bytes"
	"encoding/json"
	"fmt"
	"os"
	"path/filepath"
	"sort"
	"strings"
	"sync/atomic"

	"github.com/berquerant/crd/chord"
	"gopkg.in/yaml.v3"

	"verif/cli"
	"verif/ev"
	"verif/mc"
	"verif/ref/dict"
	refplay "verif/ref/play"
	"verif/ref/smf"
	"verif/ref/theory"
)

// C16 — the chord dictionary means what chord symbols mean, and is safely extensible.

type c16Builtin struct {
	Lookup string `json:"lookup"`
	Path   string `json:"path"`
}

// c16Config is one user dictionary.
type c16Config struct {
	Chords  []dict.ChordDef `json:"chords"`
	Attrs   []dict.AttrDef  `json:"attrs"`
	HasAttr bool            `json:"has_attr_file"`
	Split   bool            `json:"one_file_per_chord,omitempty"`
	// Override: the user files re-use built-in names; the supplied definitions are the ones in force.
	Override bool   `json:"redefines_builtins,omitempty"`
	Path     string `json:"path"`
}

func init() {
	register(&Prop{ID: "C16", Run: runC16, Replay: map[string]func(*Env, json.RawMessage){
		"builtin": func(e *Env, raw json.RawMessage) {
			m, err := newModel(e)
			if err != nil {
				panic(err)
			}
			c16BuiltinEval(e, m, decode[c16Builtin](raw))
		},
		"user-dict": func(e *Env, raw json.RawMessage) {
			c := decode[c16Config](raw)
			c16UserEval(e, &c)
		},
		"attr-list": func(e *Env, raw json.RawMessage) { c16AttrList(e) },
		"dict-file": func(e *Env, raw json.RawMessage) { c16FileEval(e, decode[c16FileCase](raw)) },
		"builtin-seq": func(e *Env, raw json.RawMessage) {
			m, err := newModel(e)
			if err != nil {
				panic(err)
			}
			c := decode[playCase](raw)
			c01Eval(e, m, &c, true)
		},
	}})
}

func semis(ivs []theory.Interval) []int {
	var r []int
	for _, i := range ivs {
		r = append(r, i.MustSize())
	}
	sort.Ints(r)
	return r
}

// playedAbove plays a single chord on degree 1 in C and returns the sounded semitones above middle C, bass excluded.
func playedAbove(path, lookup string, cfg writeCfg) ([]int, string, bool) {
	doc := refplay.YAML([]refplay.Inst{{Chord: &refplay.Chord{Degree: iv("1"), Symbol: lookup}, Values: one()}})
	r := runWrite(path, doc, cfg)
	if r.Err != "" {
		return nil, r.Err, r.Crashed || r.Hang
	}
	f, err := smf.Parse(r.Bytes)
	if err != nil {
		return nil, err.Error(), false
	}
	_, g := noteOnGroups(f)
	if len(g) != 1 {
		return nil, fmt.Sprintf("%d chords sounded", len(g)), false
	}
	var above []int
	bass := false
	for _, p := range g[0] {
		if p == 48 && !bass {
			bass = true
			continue
		}
		above = append(above, p-60)
	}
	sort.Ints(above)
	return above, "", false
}

func c16BuiltinEval(e *Env, m *refplay.Model, c c16Builtin) {
	e.R.Eval(1)
	fail := func(class, msg string) {
		e.R.Fail(ev.Fail{Class: class, Msg: fmt.Sprintf("look-up %q (%s): %s", c.Lookup, c.Path, msg), Kind: "builtin", Case: c})
	}
	def, ok := m.Dict.Chords[c.Lookup]
	if !ok {
		panic("C16 harness: unknown look-up " + c.Lookup)
	}
	want, conv := dict.Conventional[def.Meta.Display]
	got, msg, crashed := playedAbove(c.Path, c.Lookup, writeCfg{})
	if msg != "" {
		cl := "C16/builtin-unplayable"
		if crashed {
			cl = "C16/builtin-crash"
		}
		fail(cl, msg)
		return
	}
	if conv && !eqInts(got, want) {
		fail("C16/builtin-meaning", fmt.Sprintf("sounds %v above the root, the symbol %q conventionally means %v", got, def.Meta.Display, want))
		return
	}
	// name == display
	other := def.Name
	if c.Lookup == def.Name {
		other = def.Meta.Display
	}
	got2, msg2, _ := playedAbove(c.Path, other, writeCfg{})
	if msg2 != "" || !eqInts(got, got2) {
		fail("C16/name-display-differ", fmt.Sprintf("%q sounds %v but %q sounds %v (%s)", c.Lookup, got, other, got2, msg2))
		return
	}
	e.R.Outcome(fmt.Sprint(got))
}

func c16AttrList(e *Env) {
	e.R.Eval(1)
	fail := func(class, msg string) {
		e.R.Fail(ev.Fail{Class: class, Msg: msg, Kind: "attr-list", Case: "attr-list"})
	}
	file, err := os.ReadFile(filepath.Join(e.RepoDir, "chord", "attribute.yml"))
	if err != nil {
		panic(err)
	}
	gen := cli.In("", "gen", "attr", "-d", "20")
	list := cli.In("", "info", "attr", "list")
	if !gen.OK() || !list.OK() {
		fail("C16/attr-list/fails", "gen attr or info attr list fails: "+firstLine(gen.Stderr)+firstLine(list.Stderr))
		return
	}
	parse := func(b []byte) string {
		var a []dict.AttrDef
		if err := yaml.Unmarshal(b, &a); err != nil {
			return "unreadable: " + err.Error()
		}
		return mustJSON(a)
	}
	if parse(file) != parse(gen.Stdout) {
		fail("C16/attr-list/embedded-differs-from-generated", "chord/attribute.yml is not what `crd gen attr -d 20` generates")
	}
	if parse(list.Stdout) != parse(gen.Stdout) {
		fail("C16/attr-list/listed-differs-from-generated", "`crd info attr list` is not what `crd gen attr -d 20` generates")
	}
	// ... and what the command generates when it is simply run (its own default bound)
	if plain := cli.In("", "gen", "attr"); !plain.OK() || parse(file) != parse(plain.Stdout) {
		fail("C16/attr-list/embedded-differs-from-generated", "chord/attribute.yml is not what plain `crd gen attr` generates: "+firstLine(plain.Stderr))
	}
	// every attribute name denotes the interval its English name says (embedded data, read by the implementation)
	for _, a := range chord.BasicAttributes() {
		want, ok := dict.AttributeByEnglishName(a.Name)
		got, known := refOfImpl(a.Degree)
		if !ok || !known || want != got {
			fail("C16/attribute-name-meaning", fmt.Sprintf("attribute %s denotes %v, its English name says %v", a.Name, got, want))
		}
		if s, ok := a.Semitone(); !ok || int(s) != want.MustSize() {
			fail("C16/attribute-name-meaning", fmt.Sprintf("attribute %s measures %d semitones, its English name says %d", a.Name, s, want.MustSize()))
		}
		e.R.Eval(1)
	}
}

func yamlOf(v any) string {
	b, err := yaml.Marshal(v)
	if err != nil {
		panic(err)
	}
	return string(b)
}

var c16Dir int64

// c16UserEval loads a user dictionary next to the built-ins and compares with ref/dict.
func c16UserEval(e *Env, c *c16Config) {
	e.R.Eval(1)
	fail := func(class, msg string) {
		e.R.Fail(ev.Fail{Class: class, Msg: fmt.Sprintf("user chords %s attrs %s (%s): %s", mustJSON(c.Chords), mustJSON(c.Attrs), c.Path, msg), Kind: "user-dict", Case: c})
	}
	// reference verdict
	base, err := refDict(e.RepoDir, nil, nil)
	if err != nil {
		panic(err)
	}
	var battrs []dict.AttrDef
	for name, i := range base.Attrs {
		battrs = append(battrs, dict.AttrDef{Name: name, Degree: i.Notation()})
	}
	sort.Slice(battrs, func(i, j int) bool { return battrs[i].Name < battrs[j].Name })
	rd, rerr := dict.Build(append(battrs, c.Attrs...), append(append([]dict.ChordDef{}, base.Order...), c.Chords...))
	// a user entry that re-uses a built-in name or display symbol: the statement says the supplied
	// definitions "are usable like built-ins" and quantifies over "overriding and fresh names", so
	// the supplied definition is the one in force for its name and its display (the reference
	// lets later entries win). Only conflicts among the user's own entries stay unjudged (c16Ambiguous).
	sameMeaning := func(look string) bool { return true }
	consistent := rerr == nil
	cyclic := rerr != nil && strings.Contains(rerr.Error(), "cyclic")

	chordYAML := yamlOf(c.Chords)
	attrYAML := yamlOf(c.Attrs)

	if c.Path == "lib" {
		if cyclic {
			return // an unchecked cycle overflows the stack, which is fatal in-process: the real binary carries these cases
		}
		func() {
			defer func() {
				if r := recover(); r != nil {
					fail("C16/user-dict/panic", fmt.Sprint("panic: ", r))
				}
			}()
			b := chord.NewBuilder()
			for _, x := range chord.BasicAttributes() {
				b.Attribute(x)
			}
			for _, x := range chord.BasicChords() {
				b.Chord(x)
			}
			var lerr error
			if c.HasAttr {
				as, err := chord.ParseAttributes([]byte(attrYAML))
				if err != nil {
					lerr = err
				}
				for _, x := range as {
					b.Attribute(x)
				}
			}
			cs, err := chord.ParseChords([]byte(chordYAML))
			if err != nil && lerr == nil {
				lerr = err
			}
			for _, x := range cs {
				b.Chord(x)
			}
			var mp *chord.Map
			if lerr == nil {
				mp, lerr = b.Build()
			}
			if consistent && lerr != nil {
				fail("C16/user-dict/consistent-refused", "a consistent dictionary is refused: "+lerr.Error())
				return
			}
			if !consistent {
				if lerr == nil {
					fail("C16/user-dict/inconsistent-accepted/"+c16Kind(rerr), "an inconsistent dictionary loads: "+rerr.Error())
				}
				return
			}
			for _, uc := range c.Chords {
				for _, look := range []string{uc.Name, uc.Meta.Display} {
					if c16Ambiguous(c.Chords, look) || !sameMeaning(look) {
						continue
					}
					want, _ := rd.Resolve(look)
					as, ok := mp.GetChordAttributes(look)
					if !ok {
						fail("C16/user-dict/lookup", fmt.Sprintf("user chord %q cannot be looked up", look))
						return
					}
					var got []int
					for _, a := range as {
						s, _ := a.Semitone()
						got = append(got, int(s))
					}
					sort.Ints(got)
					if !eqInts(got, semis(want)) {
						fail("C16/user-dict/resolution", fmt.Sprintf("user chord %q resolves to %v, its definition (extends transitively, parent first) means %v", look, got, semis(want)))
						return
					}
				}
			}
			e.R.Outcome("consistent")
		}()
		return
	}
	if cli.TooManyHangs() {
		e.R.NotExhaustive("stopped feeding the binary after 12 reproducible hangs")
		return
	}
	// real binary
	dir := filepath.Join(e.Scratch, fmt.Sprintf("dict%d", atomic.AddInt64(&c16Dir, 1)))
	if err := os.MkdirAll(dir, 0o755); err != nil {
		panic(err)
	}
	defer os.RemoveAll(dir)
	cfg := writeCfg{ChordFiles: []string{writeTemp(dir, "chords.yml", chordYAML)}}
	if c.Split {
		// one --chord file per user chord, in the written order: the files together are one dictionary
		cfg.ChordFiles = nil
		for i, uc := range c.Chords {
			cfg.ChordFiles = append(cfg.ChordFiles, writeTemp(dir, fmt.Sprintf("chords%d.yml", i), yamlOf([]dict.ChordDef{uc})))
		}
	}
	if c.HasAttr {
		cfg.AttrFiles = []string{writeTemp(dir, "attrs.yml", attrYAML)}
	}
	if !consistent {
		doc := refplay.YAML([]refplay.Inst{{Chord: &refplay.Chord{Degree: iv("1"), Symbol: ""}, Values: one()}})
		r := cli.Run(cli.Opt{Stdin: []byte(doc), MemKB: 4 << 20}, append([]string{"write"}, cfg.args()...)...)
		if why := failureShape(r); why != "" {
			fail("C16/user-dict/inconsistent-accepted/"+c16Kind(rerr), fmt.Sprintf("an inconsistent dictionary (%v) is not refused cleanly by crd write: %s", rerr, why))
		}
		e.R.Outcome("rejected")
		return
	}
	for _, uc := range c.Chords {
		for _, look := range []string{uc.Name, uc.Meta.Display} {
			if c16Ambiguous(c.Chords, look) || !sameMeaning(look) {
				continue
			}
			want, _ := rd.Resolve(look)
			got, msg, _ := playedAbove("cli", look, cfg)
			if msg != "" {
				fail("C16/user-dict/consistent-refused", fmt.Sprintf("user chord %q of a consistent dictionary cannot be played: %s", look, msg))
				return
			}
			if !eqInts(got, semis(want)) {
				fail("C16/user-dict/resolution", fmt.Sprintf("user chord %q sounds %v, its definition means %v", look, got, semis(want)))
				return
			}
		}
	}
	if c.Override {
		// an untouched built-in still means what it meant, and the dictionary loads at all
		for _, look := range []string{"sus2", "aug", "dim", "6"} {
			touched := !sameMeaning(look)
			for _, uc := range c.Chords {
				if uc.Name == rd.Chords[look].Name || uc.Meta.Display == look {
					touched = true
				}
			}
			if touched {
				continue
			}
			want, _ := rd.Resolve(look)
			if got, msg, _ := playedAbove("cli", look, cfg); msg != "" {
				fail("C16/user-dict/consistent-refused", "a dictionary that is consistent whichever definition wins cannot be used: "+msg)
				return
			} else if !eqInts(got, semis(want)) {
				fail("C16/user-dict/resolution", fmt.Sprintf("built-in %s sounds %v next to a user file that does not touch it", look, got))
				return
			}
			break
		}
	}
	// info chord describe agrees as well
	first := c.Chords[0]
	target := "C_" + first.Meta.Display
	if first.Meta.Display == "" {
		target = "C"
	}
	args := []string{"info", "chord", "describe", "-t", target}
	args = append(args, cfg.args()...)
	r := cli.In("", args...)
	if !r.OK() {
		fail("C16/user-dict/describe-fails", firstLine(r.Stderr))
		return
	}
	// ... and describes the chord with the notes its definition means (as a multiset; the order of the listing is not prescribed)
	look := first.Meta.Display
	if !c16Ambiguous(c.Chords, look) {
		var ci struct {
			Attributes []yAttrInfo `yaml:"attributes"`
		}
		if err := yaml.Unmarshal(r.Stdout, &ci); err != nil {
			fail("C16/user-dict/describe-output", err.Error())
			return
		}
		want, _ := rd.Resolve(look)
		var ws, gs []string
		for _, w := range want {
			ws = append(ws, w.Notation())
		}
		rootC, _ := theory.ParseNote("C")
		for _, a := range ci.Attributes {
			iv, ok := theory.ParseNotation(a.Attribute.Degree)
			if !ok {
				fail("C16/user-dict/describe-wrong", fmt.Sprintf("describe lists an attribute with degree %q", a.Attribute.Degree))
				return
			}
			gs = append(gs, iv.Notation())
			if msg := c15CheckInfo(a, rootC, iv, false); msg != "" {
				fail("C16/user-dict/describe-wrong", fmt.Sprintf("info chord describe -t %s: %s", target, msg))
				return
			}
		}
		sort.Strings(ws)
		sort.Strings(gs)
		if strings.Join(ws, " ") != strings.Join(gs, " ") {
			fail("C16/user-dict/describe-wrong", fmt.Sprintf("info chord describe -t %s lists the intervals %v, the definition means %v", target, gs, ws))
			return
		}
	}
	e.R.Outcome("consistent")
}

// c16Ambiguous: the look-up string is claimed by two different user chords (the statement
// does not fix which one wins).
func c16Ambiguous(cs []dict.ChordDef, _ string) bool {
	// if any look-up string is claimed by two user chords, which notes a look-up yields is not
	// defined by the statement (the implementation resolves a chord found by display symbol through
	// its long name again): only the verdict and crash-freedom are judged for such dictionaries
	for _, a := range cs {
		for _, look := range []string{a.Name, a.Meta.Display} {
			n := 0
			for _, c := range cs {
				if c.Name == look || c.Meta.Display == look {
					n++
				}
			}
			if n > 1 && look != "" {
				return true
			}
		}
	}
	return false
}

func c16Kind(err error) string {
	s := err.Error()
	for _, k := range []string{"cyclic", "dangling attribute", "dangling extends", "unnamed", "neither"} {
		if strings.Contains(s, k) {
			return strings.ReplaceAll(k, " ", "-")
		}
	}
	return "other"
}

func runC16(e *Env) {
	e.R.Rule = "built-ins complete: 46 look-ups played and compared with the conventional table, name = display, 67 attributes vs the English reading of their names, embedded list = generated list; user dictionaries, exhaustive small scope: n user chords (n <= 2 quick, <= 3 thorough on a reduced option set), each with name {fresh, unnamed}, display {fresh, equal to another user chord's long name}, extends {none, built-in by name, built-in by display, every user chord by name incl. itself, user chord by display, dangling}, attributes {none, built-in, user attribute, dangling}, optional user attribute file {absent, fresh, unnamed entry}, both file orders. distinct = distinct dictionary; non-trivial = every case (each compares a verdict or a resolution)"
	e.R.Assume("reference: conventional interval sets (absolute), English reading of attribute names (absolute), ref/dict loader with iterative extends resolution and explicit cycle/dangling detection (relative)")
	e.R.Exclude("user entries that override a built-in name or display (the statement does not fix which definition wins)")
	m, err := newModel(e)
	if err != nil {
		panic(err)
	}
	var lookups []string
	seen := map[string]bool{}
	for _, c := range m.Dict.Order {
		for _, s := range []string{c.Name, c.Meta.Display} {
			if !seen[s] {
				seen[s] = true
				lookups = append(lookups, s)
			}
		}
		if _, ok := dict.Conventional[c.Meta.Display]; !ok {
			e.R.Note("built-in symbol without a conventional entry in the reference table (only name=display and playability are checked): " + c.Meta.Display)
		}
	}
	for sym := range dict.Conventional {
		if _, ok := m.Dict.Chords[sym]; !ok {
			e.R.Fail(ev.Fail{Class: "C16/builtin-missing", Msg: fmt.Sprintf("the dictionary has no symbol %q", sym), Kind: "builtin", Case: c16Builtin{sym, "lib"}})
		}
	}
	for _, l := range lookups {
		for _, p := range []string{"lib", "cli"} {
			c16BuiltinEval(e, m, c16Builtin{l, p})
			e.R.Transition(1)
		}
		e.R.State("lookup:" + l)
		e.R.NonTrivial("lookup:" + l)
	}
	// a look-up must not be disturbed by the look-ups around it: [A B A] for every ordered pair
	var seqN int64
	type pr struct{ a, b string }
	var prs []pr
	for _, a := range lookups {
		for _, b := range lookups {
			if a != b {
				prs = append(prs, pr{a, b})
			}
		}
	}
	key, _ := theory.ParseKey("C")
	mc.ParFor(len(prs), func(i int) {
		p := prs[i]
		c := playCase{Path: "lib"}
		for _, s := range []string{p.a, p.b, p.a} {
			c.Insts = append(c.Insts, refplay.Inst{Chord: &refplay.Chord{Degree: iv("1"), Symbol: s}, Values: one()})
		}
		res := runWrite("lib", refplay.YAML(c.Insts), writeCfg{})
		atomic.AddInt64(&seqN, 1)
		e.R.Eval(1)
		if res.Err != "" {
			return // playability is judged above
		}
		f, err := smf.Parse(res.Bytes)
		if err != nil {
			return
		}
		_, groups := noteOnGroups(f)
		want, _ := chordPitches(m, key, c.Insts[2].Chord)
		if len(groups) == 3 && !eqInts(groups[2], want) {
			c.fill()
			e.R.Fail(ev.Fail{Class: "C16/builtin-meaning-in-sequence", Msg: fmt.Sprintf("%q played after %q and %q sounds %v, its definition means %v", p.a, p.a, p.b, groups[2], want), Kind: "builtin-seq", Case: c})
		}
	})
	c16AttrList(e)
	e.R.AddPart(ev.Part{Name: "built-ins", Enumerated: "46 look-ups x {in-process, real binary}; every ordered pair of look-ups as the sequence [A B A]; 67 attributes; gen attr = info attr list = embedded file", Executions: int64(2*len(lookups)+67+1) + seqN, States: int64(len(lookups)), Transitions: int64(2 * len(lookups)), Exhaustive: true})

	// user dictionaries
	n := 2
	type opt struct {
		unnamed bool
		extends string // "", name
		attrs   []string
	}
	names := []string{"UserA", "UserB", "UserC"}
	disps := []string{"ua", "ub", "uc"}
	gen := func(n int, reduced bool) []c16Config {
		var exts []string
		exts = append(exts, "", "MinorSeventh", "m7", "Nope")
		for j := 0; j < n; j++ {
			exts = append(exts, names[j])
		}
		exts = append(exts, disps[0])
		attrOpts := [][]string{nil, {"Major6"}, {"UA"}, {"Nope"}}
		if reduced {
			attrOpts = [][]string{nil, {"Major6"}}
		}
		var per []opt
		for _, un := range []bool{false, true} {
			if reduced && un {
				continue
			}
			for _, x := range exts {
				for _, a := range attrOpts {
					per = append(per, opt{un, x, a})
				}
			}
		}
		var out []c16Config
		idx := make([]int, n)
		for {
			var cs []dict.ChordDef
			for j := 0; j < n; j++ {
				o := per[idx[j]]
				cd := dict.ChordDef{Name: names[j], Attributes: o.attrs, Extends: o.extends}
				if o.unnamed {
					cd.Name = ""
				}
				cd.Meta.Display = disps[j]
				cs = append(cs, cd)
			}
			variants := [][]dict.ChordDef{cs}
			if n >= 2 && !reduced {
				// the last chord's display symbol equals the first chord's long name: the first chord is then
				// reachable by its display symbol only and must still be validated
				sh := append([]dict.ChordDef{}, cs...)
				sh[n-1].Meta.Display = names[0]
				variants = append(variants, sh)
			}
			for _, cs := range variants {
				attrFiles := []int{0, 1, 2}
				if reduced {
					attrFiles = []int{0}
				}
				for _, af := range attrFiles {
					for _, rev := range []bool{false, true} {
						if rev && n == 1 {
							continue
						}
						c := c16Config{Chords: append([]dict.ChordDef{}, cs...)}
						if rev {
							for a, b := 0, len(c.Chords)-1; a < b; a, b = a+1, b-1 {
								c.Chords[a], c.Chords[b] = c.Chords[b], c.Chords[a]
							}
						}
						switch af {
						case 1:
							c.HasAttr = true
							c.Attrs = []dict.AttrDef{{Name: "UA", Degree: "#11"}}
						case 2:
							c.HasAttr = true
							c.Attrs = []dict.AttrDef{{Name: "", Degree: "#11"}}
						}
						out = append(out, c)
					}
				}
			}
			j := 0
			for j < n {
				idx[j]++
				if idx[j] < len(per) {
					break
				}
				idx[j] = 0
				j++
			}
			if j == n {
				break
			}
		}
		return out
	}
	var cfgs []c16Config
	cfgs = append(cfgs, gen(1, false)...)
	cfgs = append(cfgs, gen(n, false)...)
	if e.Thorough {
		cfgs = append(cfgs, gen(3, true)...)
	}
	var cliN int64
	mc.ParFor(len(cfgs), func(i int) {
		c := cfgs[i]
		c.Path = "lib"
		c16UserEval(e, &c)
		e.R.Trace(1)
		e.R.NonTrivial(fmt.Sprint("u", i))
		// real binary: every configuration with a cycle, and every k-th of the others
		// does following extends among the user chords come back to a chord already seen?
		cyc := false
		byKey := map[string]dict.ChordDef{}
		for _, a := range c.Chords {
			byKey[a.Name] = a
			byKey[a.Meta.Display] = a
		}
		for _, a := range c.Chords {
			seen := map[string]bool{a.Name: true}
			cur := a
			for cur.Extends != "" {
				nx, ok := byKey[cur.Extends]
				if !ok {
					break
				}
				if seen[nx.Name] {
					cyc = true
					break
				}
				seen[nx.Name] = true
				cur = nx
			}
		}
		k := 40
		if e.Thorough {
			k = 2
		}
		if cyc || i%k == 0 {
			cc := cfgs[i]
			cc.Path = "cli"
			c16UserEval(e, &cc)
			atomic.AddInt64(&cliN, 1)
			if len(cc.Chords) > 1 && (e.Thorough || i%3 == 0) {
				cs := cfgs[i]
				cs.Path = "cli"
				cs.Split = true
				c16UserEval(e, &cs)
				atomic.AddInt64(&cliN, 1)
			}
		}
	})
	e.R.AddPart(ev.Part{Name: "user-dictionaries", Enumerated: fmt.Sprintf("%d user dictionaries (n = 1, 2%s) in-process through chord.ParseChords/ParseAttributes + Builder.Build + GetChordAttributes; %d of them (every dictionary with a cycle among the user chords, and a regular sample of the rest; dictionaries of two chords also as one --chord file per chord) through `crd write --chord F --attr G` and `crd info chord describe`", len(cfgs), map[bool]string{true: ", 3 on a reduced option set", false: ""}[e.Thorough], cliN), Executions: int64(len(cfgs)) + cliN, Exhaustive: true})
	c16Chains(e)
	c16Overrides(e)
	c16FileSpellings(e)
	e.R.Sample(map[string]any{"user_chords": []map[string]any{{"name": "UserA", "display": "ua", "extends": "UserB", "attributes": []string{"Major6"}}, {"name": "UserB", "display": "ub", "extends": "m7"}}, "oracle": "UserA = 0 3 7 10 + 9"})
	_ = bytes.Equal
}

// c16Chains: `extends` is transitive at any depth. Chains of k user chords on top of built-in
// roots of depth 1..4, every chord adding one attribute, referring to the parent by name or by
// display, declared parent-first, child-first and interleaved.
func c16Chains(e *Env) {
	add := []string{"Major9", "Perfect11", "Major13", "Minor7", "Augmented4", "Minor6", "Minor9", "Augmented5", "Major6", "Minor13", "Augmented11", "Minor3", "Major7", "Perfect4", "Major2", "Diminished5", "Augmented9", "Minor2", "Diminished7", "Major3"}
	maxK := 12
	if e.Thorough {
		maxK = 20
	}
	var cfgs []c16Config
	for _, root := range []string{"", "MajorTriad", "maj9", "m7", "mM9", "dim7"} {
		for k := 1; k <= maxK; k++ {
			for order := 0; order < 3; order++ {
				var cs []dict.ChordDef
				for i := 0; i < k; i++ {
					d := dict.ChordDef{Name: fmt.Sprintf("Link%d", i), Attributes: []string{add[i%len(add)]}}
					d.Meta.Display = fmt.Sprintf("lk%d", i)
					switch {
					case i == 0:
						d.Extends = root
					case i%2 == 0:
						d.Extends = fmt.Sprintf("Link%d", i-1)
					default:
						d.Extends = fmt.Sprintf("lk%d", i-1)
					}
					cs = append(cs, d)
				}
				switch order {
				case 1: // child first
					for a, b := 0, len(cs)-1; a < b; a, b = a+1, b-1 {
						cs[a], cs[b] = cs[b], cs[a]
					}
				case 2: // even links, then odd links
					var ev, od []dict.ChordDef
					for i, c := range cs {
						if i%2 == 0 {
							ev = append(ev, c)
						} else {
							od = append(od, c)
						}
					}
					cs = append(ev, od...)
				}
				if root == "" && k == 1 {
					continue // a chord needs attributes or extends; it has one attribute: fine, but no root to name
				}
				cfgs = append(cfgs, c16Config{Chords: cs, Path: "lib"})
			}
		}
	}
	// long names and display symbols
	for _, n := range []int{63, 64, 65, 255, 256, 1000} {
		a := dict.ChordDef{Name: "N" + strings.Repeat("a", n-1), Extends: "m7", Attributes: []string{"Major9"}}
		a.Meta.Display = "x" + strings.Repeat("y", n-1)
		b := dict.ChordDef{Name: "M" + strings.Repeat("a", n-1), Extends: a.Meta.Display, Attributes: []string{"Perfect11"}}
		b.Meta.Display = "z" + strings.Repeat("y", n-1)
		cfgs = append(cfgs, c16Config{Chords: []dict.ChordDef{a, b}, Path: "lib"})
	}
	var cliN int64
	mc.ParFor(len(cfgs), func(i int) {
		c := cfgs[i]
		c16UserEval(e, &c)
		e.R.NonTrivialN(1)
		if n := len(c.Chords); n == 1 || len(c.Chords[0].Name) > 60 || n >= 7 && n <= 10 || n == 12 || e.Thorough {
			cc := cfgs[i]
			cc.Path = "cli"
			c16UserEval(e, &cc)
			atomic.AddInt64(&cliN, 1)
			if n == 9 {
				cs := cfgs[i]
				cs.Path = "cli"
				cs.Split = true
				c16UserEval(e, &cs)
				atomic.AddInt64(&cliN, 1)
			}
		}
	})
	e.R.AddPart(ev.Part{Name: "extends-chains", Enumerated: fmt.Sprintf("chains of k = 1..%d user chords, each adding one attribute and extending the previous one (by name and by display alternately), on top of {nothing, MajorTriad, maj9, m7, mM9, dim7} (built-in depth 0..4) x declaration order {parent first, child first, even links then odd links}: every link looked up by name and by display and compared with the reference resolution; plus names and display symbols of 63..1000 characters; in-process all %d, real binary %d (k = 1, 7..10, 12; one file per chord for k = 9)", maxK, len(cfgs), cliN), Executions: int64(len(cfgs)) + cliN, Exhaustive: true})
}

// c16Overrides: user files that redefine built-in entries. Whichever definition wins, these
// dictionaries are consistent, so they must load; look-ups that mean the same under both
// readings must sound that.
func c16Overrides(e *Env) {
	base, err := refDict(e.RepoDir, nil, nil)
	if err != nil {
		panic(err)
	}
	byKey := map[string]dict.ChordDef{}
	for _, c := range base.Order {
		byKey[c.Name] = c
		byKey[c.Meta.Display] = c
	}
	attrNames := func(c dict.ChordDef) []string {
		// the chord's complete attribute list, written out (no extends needed)
		var chain []dict.ChordDef
		for cur := c; ; cur = byKey[cur.Extends] {
			chain = append(chain, cur)
			if cur.Extends == "" {
				break
			}
		}
		var r []string
		for i := len(chain) - 1; i >= 0; i-- {
			r = append(r, chain[i].Attributes...)
		}
		return r
	}
	var cfgs []c16Config
	for _, child := range base.Order {
		if child.Extends == "" {
			continue
		}
		parent := byKey[child.Extends]
		// (a) the same entry again; (b) the entry flattened; (c) the pair with the direction reversed:
		// the child becomes the primary chord, the parent an alias of it (same notes as before when the
		// child adds nothing, more notes otherwise - a consistent dictionary either way)
		same := child
		flat := child
		flat.Extends, flat.Attributes = "", attrNames(child)
		prim := child
		prim.Extends, prim.Attributes = "", attrNames(child)
		alias := parent
		alias.Extends, alias.Attributes = child.Name, nil
		aliasByDisplay := alias
		aliasByDisplay.Extends = child.Meta.Display
		cfgs = append(cfgs,
			c16Config{Chords: []dict.ChordDef{same}, Override: true},
			c16Config{Chords: []dict.ChordDef{flat}, Override: true},
			c16Config{Chords: []dict.ChordDef{prim, alias}, Override: true},
			c16Config{Chords: []dict.ChordDef{alias, prim}, Override: true},
			c16Config{Chords: []dict.ChordDef{prim, aliasByDisplay}, Override: true},
		)
	}
	// attributes: a user attribute file that re-uses a built-in attribute name; the chords that
	// name the attribute (the user's and the built-in ones) sound the supplied interval
	nChordCfgs := len(cfgs)
	for _, ad := range [][2]string{{"Major9", "#9"}, {"Major3", "4"}, {"Perfect5", "b5"}, {"Minor7", "6"}, {"Major13", "b13"}, {"Perfect1", "1"}, {"Major2", "b2"}} {
		uc := dict.ChordDef{Name: "Uses" + ad[0], Attributes: []string{"Perfect1", ad[0]}}
		uc.Meta.Display = "u" + strings.ToLower(ad[0])
		ext := dict.ChordDef{Name: "Over9", Extends: "9", Attributes: []string{ad[0]}}
		ext.Meta.Display = "o9"
		cfgs = append(cfgs,
			c16Config{Attrs: []dict.AttrDef{{Name: ad[0], Degree: ad[1]}}, HasAttr: true, Chords: []dict.ChordDef{uc}, Override: true},
			c16Config{Attrs: []dict.AttrDef{{Name: ad[0], Degree: ad[1]}, {Name: "Fresh", Degree: "#11"}}, HasAttr: true, Chords: []dict.ChordDef{ext, uc}, Override: true})
	}
	mc.ParFor(len(cfgs), func(i int) {
		for _, path := range []string{"lib", "cli"} {
			c := cfgs[i]
			c.Path = path
			c16UserEval(e, &c)
		}
		e.R.NonTrivialN(2)
	})
	e.R.AddPart(ev.Part{Name: "redefined-built-ins", Enumerated: fmt.Sprintf("for every built-in chord that extends another one (%d): a user file that repeats it, flattens it, or reverses the pair (the child becomes the primary chord, the parent its alias; both declaration orders; alias by name and by display); and 14 attribute files that re-use a built-in attribute name: the supplied definition is the one in force for its name and display, built-in chords that name a redefined attribute sound the supplied interval, untouched built-ins keep their meaning; in-process and real binary", nChordCfgs/5), Executions: int64(2 * len(cfgs)), Exhaustive: true})
}

// c16FileSpellings: a dictionary file is YAML; however it is dressed (comments, byte-order
// mark, CR LF, directive and document markers, flow style, anchors) it is the same dictionary.
type c16FileCase struct {
	Name   string `json:"spelling"`
	Chords string `json:"chord_file"`
	Attrs  string `json:"attr_file"`
	// Extra: a second --chord and --attr file with this content is given as well (an empty
	// dictionary adds nothing), before (true) or after the real one
	Extra      *string `json:"extra_file,omitempty"`
	ExtraFirst bool    `json:"extra_first,omitempty"`
}

const (
	c16PlainChords = "- name: UserA\n  meta:\n    display: ua\n  extends: m7\n  attributes:\n    - Major9\n    - UA\n- name: UserB\n  meta:\n    display: ub\n  extends: UserA\n  attributes:\n    - Perfect11\n- name: UserC\n  meta:\n    display: uc\n  attributes:\n    - Perfect1\n    - UB\n    - Perfect5\n"
	c16PlainAttrs  = "- name: UA\n  degree: \"#11\"\n- name: UB\n  degree: \"b3\"\n"
	c16FileDoc     = "- chord:\n    degree: \"1\"\n    name: \"ua\"\n  values:\n    - \"1\"\n- chord:\n    degree: \"4\"\n    name: \"UserB\"\n  values:\n    - \"1\"\n- chord:\n    degree: \"5\"\n    name: \"uc\"\n    base: \"3\"\n  values:\n    - \"1\"\n"
)

func c16FileRun(e *Env, chords, attrs string, extra ...string) (string, string) {
	dir := filepath.Join(e.Scratch, fmt.Sprintf("dict%d", atomic.AddInt64(&c16Dir, 1)))
	if err := os.MkdirAll(dir, 0o755); err != nil {
		panic(err)
	}
	defer os.RemoveAll(dir)
	cf, af := writeTemp(dir, "chords.yml", chords), writeTemp(dir, "attrs.yml", attrs)
	var out strings.Builder
	for _, a := range [][]string{{"write", "event"}, {"info", "chord", "list"}, {"info", "attr", "list"}, {"info", "chord", "describe", "-t", "C_ub"}} {
		args := append([]string{}, a...)
		xf := ""
		if len(extra) == 2 {
			xf = writeTemp(dir, "extra.yml", extra[0])
		}
		if xf != "" && extra[1] == "first" {
			args = append(args, "--attr", xf)
		}
		args = append(args, "--attr", af)
		if xf != "" && extra[1] != "first" {
			args = append(args, "--attr", xf)
		}
		if a[1] != "attr" {
			if xf != "" && extra[1] == "first" {
				args = append(args, "--chord", xf)
			}
			args = append(args, "--chord", cf)
			if xf != "" && extra[1] != "first" {
				args = append(args, "--chord", xf)
			}
		}
		r := cli.In(c16FileDoc, args...)
		if !r.OK() {
			return "", fmt.Sprintf("crd %s: %s", strings.Join(a, " "), firstLine(r.Stderr))
		}
		out.Write(r.Stdout)
	}
	return out.String(), ""
}

func c16FileEval(e *Env, c c16FileCase) {
	e.R.Eval(1)
	want, werr := c16FileRun(e, c16PlainChords, c16PlainAttrs)
	var extra []string
	if c.Extra != nil {
		extra = []string{*c.Extra, map[bool]string{true: "first", false: "last"}[c.ExtraFirst]}
	}
	got, gerr := c16FileRun(e, c.Chords, c.Attrs, extra...)
	if werr != "" {
		// a consistent dictionary in its plainest spelling: refusing it is the violation
		e.R.Fail(ev.Fail{Class: "C16/dictionary-file-spelling/plain-refused", Msg: "the plain dictionary files (3 chords, 2 attributes, extends by display symbol and by name) are refused: " + werr, Kind: "dict-file", Case: c})
		return
	}
	if gerr != "" || got != want {
		msg := gerr
		if msg == "" {
			msg = "write event / info chord list / info attr list / info chord describe print something else: " + describeDiff([]byte(want), []byte(got))
		}
		e.R.Fail(ev.Fail{Class: "C16/dictionary-file-spelling/" + c.Name, Msg: fmt.Sprintf("the dictionary files written with %s are not read as their plain spelling: %s", c.Name, msg), Kind: "dict-file", Case: c})
		return
	}
	e.R.Outcome(c.Name)
}

func c16FileSpellings(e *Env) {
	dress := []struct {
		name string
		f    func(string) string
	}{
		{"leading-comment", func(s string) string { return "# my chords\n" + s }},
		{"comment-and-blank-lines-first", func(s string) string { return "\n\n# my chords\n\n" + s }},
		{"byte-order-mark", func(s string) string { return "\xef\xbb\xbf" + s }},
		{"crlf-line-ends", func(s string) string { return strings.ReplaceAll(s, "\n", "\r\n") }},
		{"document-markers", func(s string) string { return "---\n" + s + "...\n" }},
		{"yaml-directive", func(s string) string { return "%YAML 1.1\n---\n" + s }},
		{"comment-after-every-line", func(s string) string { return strings.ReplaceAll(s, "\n", " # c\n") }},
		{"no-final-newline", func(s string) string { return strings.TrimSuffix(s, "\n") }},
		{"deeper-indentation", deeper},
		{"leading-spaces-on-first-line", func(s string) string { return "  " + strings.ReplaceAll(s, "\n", "\n  ") }},
	}
	cases := []c16FileCase{
		{Name: "flow-style", Chords: "[{name: UserA, meta: {display: ua}, extends: m7, attributes: [Major9, UA]}, {name: UserB, meta: {display: ub}, extends: UserA, attributes: [Perfect11]}, {name: UserC, meta: {display: uc}, attributes: [Perfect1, UB, Perfect5]}]\n", Attrs: "[{name: UA, degree: \"#11\"}, {name: UB, degree: b3}]\n"},
		{Name: "json", Chords: "[{\"name\": \"UserA\", \"meta\": {\"display\": \"ua\"}, \"extends\": \"m7\", \"attributes\": [\"Major9\", \"UA\"]}, {\"name\": \"UserB\", \"meta\": {\"display\": \"ub\"}, \"extends\": \"UserA\", \"attributes\": [\"Perfect11\"]}, {\"name\": \"UserC\", \"meta\": {\"display\": \"uc\"}, \"attributes\": [\"Perfect1\", \"UB\", \"Perfect5\"]}]", Attrs: "[{\"name\": \"UA\", \"degree\": \"#11\"}, {\"name\": \"UB\", \"degree\": \"b3\"}]"},
		{Name: "anchors-and-aliases", Chords: "- name: UserA\n  meta:\n    display: ua\n  extends: &p m7\n  attributes: &x\n    - Major9\n    - UA\n- name: UserB\n  meta:\n    display: ub\n  extends: UserA\n  attributes:\n    - Perfect11\n- name: UserC\n  meta: {display: uc}\n  attributes:\n    - &one Perfect1\n    - UB\n    - Perfect5\n", Attrs: "- &a\n  name: UA\n  degree: \"#11\"\n- name: UB\n  degree: \"b3\"\n"},
		{Name: "quoted-scalars", Chords: strings.NewReplacer("UserA", "\"UserA\"", "Major9", "'Major9'", "ua", "'ua'").Replace(c16PlainChords), Attrs: strings.ReplaceAll(c16PlainAttrs, "UA", "'UA'")},
	}
	// a dictionary file that defines nothing, given next to the real ones
	for name, content := range map[string]string{"empty-file": "", "comment-only-file": "# nothing yet\n", "blank-lines-only": "\n\n", "empty-list": "[]\n"} {
		content := content
		cases = append(cases,
			c16FileCase{Name: "extra-" + name + "/first", Chords: c16PlainChords, Attrs: c16PlainAttrs, Extra: &content, ExtraFirst: true},
			c16FileCase{Name: "extra-" + name + "/last", Chords: c16PlainChords, Attrs: c16PlainAttrs, Extra: &content})
	}
	for _, d := range dress {
		cases = append(cases,
			c16FileCase{Name: d.name + "/chord-file", Chords: d.f(c16PlainChords), Attrs: c16PlainAttrs},
			c16FileCase{Name: d.name + "/attr-file", Chords: c16PlainChords, Attrs: d.f(c16PlainAttrs)},
			c16FileCase{Name: d.name + "/both", Chords: d.f(c16PlainChords), Attrs: d.f(c16PlainAttrs)})
	}
	mc.ParFor(len(cases), func(i int) {
		c16FileEval(e, cases[i])
		e.R.NonTrivialN(1)
	})
	e.R.AddPart(ev.Part{Name: "dictionary-file-spellings", Enumerated: fmt.Sprintf("a user dictionary (3 chords, 2 attributes, extends over two levels) written in %d ways (comment / blank lines / byte-order mark first, CR LF, document markers, YAML directive, comments after every line, no final newline, deeper indentation, indented first line, flow style, JSON, anchors and aliases, quoted scalars; chord file, attribute file, both): write event, info chord list, info attr list and info chord describe print what they print for the plain files", len(cases)), Executions: int64(len(cases)), Exhaustive: true})
}
