package props

import (
	"fmt"
	"sync/atomic"

	"verif/ev"
	"verif/mc"
	"verif/ref/chordlang"
)

// Explicit-state part of C04. Model state of a text prefix = (LR stack of chords.y after
// its complete tokens, kind of the token still growing at its end, lexer mode, inside a
// comment). Two prefixes with the same state have the same futures: further characters
// are tokenised the same way (mode, growing token, comment) and the parser continues
// from the same stack. The graph is built in the reference by BFS over the 19-character
// alphabet to a fixpoint; then every edge is replayed on the implementation as
// shortest-access-string + character (token stream, lexer modes, verdict, tree), followed
// by the shortest accepting completion of the target state, or - when the target is
// dead - by every pair of further characters.

type c04State struct {
	access    string
	accepting bool
	edges     []int // per alphabet index: target state, -1 = dead
	compl     string
	hasCompl  bool
}

func c04StateKey(p *chordlang.SLR, s string) (key string, dead, accepting bool) {
	rt, modes, lexErr := chordlang.Tokenize(s)
	if lexErr {
		// `_` not (yet) followed by a symbol: at end of input this is an error, but the
		// prefix is still extendable; the pending flag is part of the mode below
		rt2, _, _ := chordlang.Tokenize(s + "m")
		if len(rt2) != len(rt)+1 {
			return "dead", true, false
		}
	}
	kinds := kindsOf(rt)
	open := ""
	if n := len(rt); n > 0 && !lexErr {
		probe := map[string]string{"NUMBER": "2", "SYMBOL": "m", "METADATA": "k"}[rt[n-1].Kind]
		if probe != "" {
			if t2, _, _ := chordlang.Tokenize(s + probe); len(t2) == n && t2[n-1].Val == rt[n-1].Val+probe {
				open = rt[n-1].Kind
				kinds = kinds[:n-1]
			}
		}
	}
	inComment := false
	if !lexErr {
		a, _, _ := chordlang.Tokenize(s + "C")
		b, _, _ := chordlang.Tokenize(s + "\nC")
		if len(a) == len(rt) && len(b) == len(rt)+1 {
			inComment = true
		}
	}
	st, ok := p.Viable(kinds)
	if !ok {
		return "dead", true, false
	}
	if open != "" {
		if _, ok2, _ := p.Step(st, open); !ok2 {
			return "dead", true, false
		}
	}
	var m chordlang.Mode
	if len(modes) > 0 {
		m = modes[len(modes)-1]
	}
	acc := !lexErr && p.Accepts(kindsOf(rt))
	return fmt.Sprintf("%s|%s|%v|%v|%v", st.Key(), open, m, lexErr, inComment), false, acc
}

func c04Graph(e *Env, g *chordlang.Grammar, p *chordlang.SLR) {
	A := c04Alphabet
	index := map[string]int{}
	var states []*c04State
	k0, _, _ := c04StateKey(p, "")
	index[k0] = 0
	states = append(states, &c04State{access: ""})
	for i := 0; i < len(states); i++ {
		s := states[i]
		s.edges = make([]int, len(A))
		for ci, c := range A {
			t := s.access + c
			k, dead, acc := c04StateKey(p, t)
			if dead {
				s.edges[ci] = -1
				continue
			}
			ti, ok := index[k]
			if !ok {
				ti = len(states)
				index[k] = ti
				states = append(states, &c04State{access: t, accepting: acc})
			}
			if states[ti].accepting != acc {
				panic(fmt.Sprintf("C04 harness: state abstraction unsound: %q and %q share state %s but differ in acceptance", states[ti].access, t, k))
			}
			s.edges[ci] = ti
		}
		if len(states) > 20000 {
			e.R.NotExhaustive("model state graph exceeds 20000 states")
			break
		}
	}
	// shortest accepting completion per state (backward fixpoint)
	for changed := true; changed; {
		changed = false
		for _, s := range states {
			best, has := s.compl, s.hasCompl
			if s.accepting && !has {
				best, has = "", true
			}
			for ci, t := range s.edges {
				if t >= 0 && states[t].hasCompl {
					c := A[ci] + states[t].compl
					if !has || len(c) < len(best) {
						best, has = c, true
					}
				}
			}
			if has && (!s.hasCompl || best != s.compl) {
				if !s.hasCompl || len(best) < len(s.compl) {
					s.compl, s.hasCompl = best, true
					changed = true
				}
			}
		}
	}
	type edge struct{ s, c int }
	var edges []edge
	for si, s := range states {
		if s.edges == nil {
			continue
		}
		for ci := range A {
			edges = append(edges, edge{si, ci})
		}
	}
	var tests, deadEdges int64
	mc.ParFor(len(edges), func(i int) {
		ed := edges[i]
		s := states[ed.s]
		base := s.access + A[ed.c]
		run := func(t string) {
			atomic.AddInt64(&tests, 1)
			if !c04Text(e, p, t, false) {
				c04Text(e, p, t, true)
			}
		}
		run(base)
		e.R.Transition(1)
		e.R.Trace(1)
		t := s.edges[ed.c]
		if t >= 0 {
			if states[t].hasCompl {
				run(base + states[t].compl)
			}
			return
		}
		atomic.AddInt64(&deadEdges, 1)
		for _, x := range A {
			for _, y := range A {
				run(base + x + y)
			}
		}
	})
	for k := range index {
		e.R.State("c04:" + k)
	}
	e.R.AddPart(ev.Part{Name: "stack-x-mode-graph", Enumerated: "explicit-state: model state = (LR stack of chords.y, growing token kind, lexer mode, in-comment); BFS over the 19 characters to fixpoint in the reference; every edge replayed on the implementation as access string + character, then + shortest accepting completion (live target) or + every 2 further characters (dead target)", Executions: tests, States: int64(len(states)), Transitions: int64(len(edges)), Exhaustive: true, Note: fmt.Sprintf("%d edges lead to the dead state", deadEdges)})
}
