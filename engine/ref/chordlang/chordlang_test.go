package chordlang

import (
	"strings"
	"testing"
)

func kinds(s string) string {
	toks, _, lexErr := Tokenize(s)
	var k []string
	for _, t := range toks {
		k = append(k, t.Kind+":"+t.Val)
	}
	if lexErr {
		k = append(k, "LEXERR")
	}
	return strings.Join(k, " ")
}

// The documented examples (README, `crd text conv --help`) and the corner rules.
func TestTokenize(t *testing.T) {
	for in, want := range map[string]string{
		"D[1] A_7/E[1]":        "SYLLABLE:D LBRA:[ NUMBER:1 RBRA:] SYLLABLE:A UNDERSCORE:_ SYMBOL:7 SLASH:/ SYLLABLE:E LBRA:[ NUMBER:1 RBRA:]",
		"Bbm[2]":               "SYLLABLE:B FLAT:b SYMBOL:m LBRA:[ NUMBER:2 RBRA:]",
		"C[1]{key=Am,bpm=200}": "SYLLABLE:C LBRA:[ NUMBER:1 RBRA:] LCBRA:{ METADATA:key EQUAL:= METADATA:Am COMMA:, METADATA:bpm EQUAL:= METADATA:200 RCBRA:}",
		"C[1]{lic=some lyric}": "SYLLABLE:C LBRA:[ NUMBER:1 RBRA:] LCBRA:{ METADATA:lic EQUAL:= METADATA:some lyric RCBRA:}",
		"C ;x\n[1]":            "SYLLABLE:C LBRA:[ NUMBER:1 RBRA:]",
		"C_ ;c\n7[1]":          "SYLLABLE:C UNDERSCORE:_ SYMBOL:7 LBRA:[ NUMBER:1 RBRA:]",
		"C_":                   "SYLLABLE:C UNDERSCORE:_ LEXERR",
		"C♯m7b5/E♭[01/2]":      "SYLLABLE:C SHARP:♯ SYMBOL:m7b5 SLASH:/ SYLLABLE:E FLAT:♭ LBRA:[ NUMBER:01 SLASH:/ NUMBER:2 RBRA:]",
		"{ a =b ;c}":           "LCBRA:{ METADATA:a  EQUAL:= METADATA:b ;c RCBRA:}",
		"2b_m":                 "NUMBER:2 FLAT:b UNDERSCORE:_ SYMBOL:m",
	} {
		if got := kinds(in); got != want {
			t.Errorf("%q\n got %s\nwant %s", in, got, want)
		}
	}
}

func TestTree(t *testing.T) {
	toks, _, _ := Tokenize("C#m7/E[1,1/2]{key=A,txt=a b} R[2]")
	items, ok := BuildTree(toks)
	if !ok || len(items) != 2 || items[0].Root != "C" || items[0].Acc != "#" || items[0].Symbol != "m7" || items[0].BassRoot != "E" ||
		len(items[0].Values) != 2 || items[0].Values[1] != [2]string{"1", "2"} || len(items[0].Meta) != 2 || items[0].Meta[1] != [2]string{"txt", "a b"} || !items[1].Rest {
		t.Fatalf("%+v %v", items, ok)
	}
	for _, bad := range []string{"C[1] ]", "C[", "C[1]{a=b", "[1]", "C[1]{}", "C/[1]", "C[1,]"} {
		toks, _, le := Tokenize(bad)
		if _, ok := BuildTree(toks); ok && !le {
			t.Errorf("%q accepted by the tree builder", bad)
		}
	}
}
