#!/usr/bin/env python3
"""Regenerates MANIFEST.json from the table below (kept in one place so that it stays valid)."""
import json, subprocess, sys, os
V = os.path.dirname(os.path.dirname(os.path.abspath(__file__)))

CHECKS = {
 "C13": dict(
   text="Complete enumeration of the finite space the property quantifies over: all 42 spellings [A-G][#b]?m? through three observation paths (op.NewScale in-process, `crd info key describe`, `crd info key list`) of the real code, each compared with an independent line-of-fifths model; unbounded verdict because the space is finite.",
   note="Trusted: ref/theory (line-of-fifths arithmetic, independent of op/scale.go), yaml.v3, Go runtime.",
   technique="exhaustive explicit enumeration of all 42 key states x 3 observation paths on the real code vs. reference model",
   ref="DESIGN.md §4 C13"),
}
NOT_YET = "check not built yet in this session (work in progress; see DESIGN.md §9 order of work)"

def main():
    props = [json.loads(l)["id"] for l in open(os.path.join(V, "properties.jsonl"))]
    hooks_commits = subprocess.run(["git","-C","/repo","log","--format=%h","--grep=^verif hooks"],capture_output=True,text=True).stdout.split()
    m = {
     "version": 1,
     "setup_cmd": "./setup.sh",
     "hooks": {
       "guard": "verif (Go build tag)",
       "enable": "go build -tags verif (done by ./check when it builds engine/cmd/vcheck against /repo through the replace directive); scheduler and map-order instrumentation is generated at check time and applied with go build -overlay, never written to /repo",
       "baseline_off_cmd": "./baseline.sh",
       "source_commits": hooks_commits,
       "add_only": True,
     },
     "engines": [
       {"name":"mc","path":"engine/mc","serves_properties":props,"kind_free_text":"stateless choice-tree search with deviation bound (Explore), explicit-state BFS over the real transition functions, exhaustive products on a worker pool"},
       {"name":"cli","path":"engine/cli","serves_properties":props,"kind_free_text":"runs the crd binary rebuilt from /repo's working tree; observes exit status, stdout, stderr, -o file"},
       {"name":"ref","path":"engine/ref","serves_properties":props,"kind_free_text":"reference models independent of the code under test: line-of-fifths theory, strict SMF decoder, exact rational timing, grammar read from chords.y, dictionary loader"},
     ],
     "checks": [],
     "not_applicable": [],
     "notes": "All checks: ./check <ID> quick|thorough; replay: ./check <ID> --replay <file>. Genuine defects: known_findings.json. Design: DESIGN.md.",
    }
    for p in props:
        if p in CHECKS:
            c = CHECKS[p]
            m["checks"].append({
              "property_id": p,
              "quick_cmd": f"./check {p} quick",
              "thorough_cmd": f"./check {p} thorough",
              "evidence_file": f"/verif/evidence/{p}.json",
              "replay_cmd_template": f"./check {p} --replay {{path}}",
              "engine": "mc+cli+ref",
              "level_claimed": {"category":"model_checking","text":c["text"],"design_ref":c["ref"]},
              "level_note": c["note"],
              "technique": c["technique"],
            })
        else:
            m["not_applicable"].append({"property_id": p, "reason": NOT_YET})
    json.dump(m, open(os.path.join(V,"MANIFEST.json"),"w"), indent=1)
    print("MANIFEST.json written:", len(m["checks"]), "checks,", len(m["not_applicable"]), "not claimed")

main()
