// Package theory is the music-theory reference model: notes on the line of fifths,
// intervals by the textbook size formula, keys, scales, signatures and the circle of
// fifths. It imports nothing from the code under test and shares no table with it.
package theory

import (
	"fmt"
	"sort"
	"strconv"
	"strings"
)

// Letters in alphabetical-musical order.
const Letters = "CDEFGAB"

// fifths position of the natural letters: F C G D A E B = -1..5.
var letterPos = map[byte]int{'F': -1, 'C': 0, 'G': 1, 'D': 2, 'A': 3, 'E': 4, 'B': 5}

// Note is a spelled pitch class: letter index 0..6 (C..B) and accidental (-2..2).
type Note struct {
	Letter int
	Acc    int
}

func (n Note) Pos() int { return letterPos[Letters[n.Letter]] + 7*n.Acc }

// PC is the pitch class 0..11.
func (n Note) PC() int { return mod(7*n.Pos(), 12) }

// Offset is the semitone offset of the spelled note above C without reducing
// modulo 12: natural letter offset plus accidental (Cb = -1, B# = 12).
func (n Note) Offset() int { return majorScale[n.Letter] + n.Acc }

func (n Note) String() string {
	s := string(Letters[n.Letter])
	switch {
	case n.Acc > 0:
		s += strings.Repeat("#", n.Acc)
	case n.Acc < 0:
		s += strings.Repeat("b", -n.Acc)
	}
	return s
}

// NoteFromPos returns the spelled note at a line-of-fifths position.
func NoteFromPos(p int) Note {
	l := mod(p+1, 7) // index into FCGDAEB
	letter := strings.IndexByte(Letters, "FCGDAEB"[l])
	acc := (p + 1 - l) / 7
	return Note{letter, acc}
}

// ParseNote reads "C", "C#", "Db", "Cbb", "C##".
func ParseNote(s string) (Note, bool) {
	if len(s) == 0 {
		return Note{}, false
	}
	l := strings.IndexByte(Letters, s[0])
	if l < 0 {
		return Note{}, false
	}
	acc := 0
	for _, c := range s[1:] {
		switch c {
		case '#':
			acc++
		case 'b':
			acc--
		default:
			return Note{}, false
		}
	}
	return Note{l, acc}, true
}

func mod(a, m int) int { return ((a % m) + m) % m }

var majorScale = [7]int{0, 2, 4, 5, 7, 9, 11}

// Quality of an interval.
type Quality int

const (
	Perfect Quality = iota
	Major
	Minor
	Augmented
	Diminished
	DoublyAugmented
	DoublyDiminished
)

var QualityNames = []string{"perfect", "major", "minor", "augmented", "diminished", "doublyaugmented", "doublydiminished"}

func (q Quality) String() string { return QualityNames[q] }

// AllQualities in a fixed order.
var AllQualities = []Quality{Perfect, Major, Minor, Augmented, Diminished, DoublyAugmented, DoublyDiminished}

// Interval is a number (>= 1) and a quality.
type Interval struct {
	Num int
	Q   Quality
}

// PerfectClass says whether the number is a unison, fourth, fifth or compound thereof.
func PerfectClass(num int) bool {
	s := (num - 1) % 7
	return s == 0 || s == 3 || s == 4
}

// Exists says whether theory knows this quality for this number.
func (i Interval) Exists() bool {
	if i.Num < 1 {
		return false
	}
	pc := PerfectClass(i.Num)
	switch i.Q {
	case Perfect:
		return pc
	case Major, Minor:
		return !pc
	}
	return true
}

// Size is the textbook size in semitones: major-scale size of the simple interval plus
// 12 per octave, -1 minor, +1 augmented, -1 (from perfect) / -2 (from major) diminished,
// one more for doubly.
func (i Interval) Size() (int, bool) {
	if !i.Exists() {
		return 0, false
	}
	base := majorScale[(i.Num-1)%7] + 12*((i.Num-1)/7)
	pc := PerfectClass(i.Num)
	switch i.Q {
	case Perfect, Major:
		return base, true
	case Minor:
		return base - 1, true
	case Augmented:
		return base + 1, true
	case DoublyAugmented:
		return base + 2, true
	case Diminished:
		if pc {
			return base - 1, true
		}
		return base - 2, true
	case DoublyDiminished:
		if pc {
			return base - 2, true
		}
		return base - 3, true
	}
	return 0, false
}

// MustSize panics on a non-existing interval.
func (i Interval) MustSize() int {
	s, ok := i.Size()
	if !ok {
		panic("no such interval " + i.String())
	}
	return s
}

func (i Interval) String() string { return fmt.Sprintf("%s%d", i.Q, i.Num) }

// Notation prints the interval in crd's documented notation: prefix "", b, bb, bbb, #, ##
// followed by the number: "" major/perfect, b minor (imperfect) or diminished (perfect),
// bb diminished, bbb doubly diminished, # augmented, ## doubly augmented. Canonical
// printing of a diminished interval is bb.
func (i Interval) Notation() string {
	p := ""
	switch i.Q {
	case Minor:
		p = "b"
	case Diminished:
		p = "bb"
	case DoublyDiminished:
		p = "bbb"
	case Augmented:
		p = "#"
	case DoublyAugmented:
		p = "##"
	}
	return p + strconv.Itoa(i.Num)
}

// ShortNotations returns every documented way to write the interval (prefix form).
func (i Interval) Notations() []string {
	r := []string{i.Notation()}
	if i.Q == Diminished && PerfectClass(i.Num) {
		r = append(r, "b"+strconv.Itoa(i.Num))
	}
	return r
}

// ParseNotation reads crd's interval notation with the accidental marks written either
// before or after the number ("b3" or "3b").
func ParseNotation(s string) (Interval, bool) {
	marks := strings.TrimRight(s, "0123456789")
	digits := s[len(marks):]
	if digits == "" {
		// suffix form
		digits = strings.TrimRight(s, "#b")
		marks = s[len(digits):]
		for _, c := range digits {
			if c < '0' || c > '9' {
				return Interval{}, false
			}
		}
	}
	if digits == "" {
		return Interval{}, false
	}
	n, err := strconv.Atoi(digits)
	if err != nil || n < 1 {
		return Interval{}, false
	}
	pc := PerfectClass(n)
	var q Quality
	switch marks {
	case "":
		if pc {
			q = Perfect
		} else {
			q = Major
		}
	case "b":
		if pc {
			q = Diminished
		} else {
			q = Minor
		}
	case "bb":
		q = Diminished
	case "bbb":
		q = DoublyDiminished
	case "#":
		q = Augmented
	case "##":
		q = DoublyAugmented
	default:
		return Interval{}, false
	}
	return Interval{n, q}, true
}

// IntervalsUpTo lists every existing interval with number 1..max.
func IntervalsUpTo(max int) []Interval {
	var r []Interval
	for n := 1; n <= max; n++ {
		for _, q := range AllQualities {
			i := Interval{n, q}
			if i.Exists() {
				r = append(r, i)
			}
		}
	}
	return r
}

// Key is a tonic and a mode.
type Key struct {
	Tonic Note
	Minor bool
}

func (k Key) String() string {
	s := k.Tonic.String()
	if k.Minor {
		s += "m"
	}
	return s
}

// Signature is the conventional number of sharps (positive) or flats (negative).
func (k Key) Signature() int {
	p := k.Tonic.Pos()
	if k.Minor {
		p -= 3
	}
	return p
}

// ParseKey reads [A-G][#b]?m?.
func ParseKey(s string) (Key, bool) {
	minor := strings.HasSuffix(s, "m")
	if minor {
		s = s[:len(s)-1]
	}
	n, ok := ParseNote(s)
	if !ok || n.Acc < -1 || n.Acc > 1 {
		return Key{}, false
	}
	return Key{n, minor}, true
}

// SupportedKeyNames are the 28 keys the property statements name.
var SupportedKeyNames = []string{
	"C", "G", "D", "A", "E", "B", "F#", "C#", "F", "Bb", "Eb", "Ab", "Db", "Gb", "Cb",
	"Am", "Em", "Bm", "F#m", "C#m", "G#m", "D#m", "Dm", "Gm", "Cm", "Fm", "Bbm", "Ebm",
}

// SupportedKeys returns the 28 keys.
func SupportedKeys() []Key {
	r := make([]Key, len(SupportedKeyNames))
	for i, s := range SupportedKeyNames {
		k, ok := ParseKey(s)
		if !ok {
			panic(s)
		}
		r[i] = k
	}
	return r
}

// IsSupported tells whether k is one of the 28.
func IsSupported(k Key) bool {
	for _, s := range SupportedKeys() {
		if s == k {
			return true
		}
	}
	return false
}

// AllKeySpellings lists the 42 spellings [A-G][#b]?m?.
func AllKeySpellings() []string {
	var r []string
	for _, l := range "ABCDEFG" {
		for _, a := range []string{"", "#", "b"} {
			for _, m := range []string{"", "m"} {
				r = append(r, string(l)+a+m)
			}
		}
	}
	return r
}

// Scale returns the seven notes of the key, from the tonic, one per letter.
func (k Key) Scale() [7]Note {
	steps := [7]int{0, 2, 4, -1, 1, 3, 5} // major scale on the line of fifths
	if k.Minor {
		steps = [7]int{0, 2, -3, -1, 1, -4, -2}
	}
	var r [7]Note
	for i, s := range steps {
		r[i] = NoteFromPos(k.Tonic.Pos() + s)
	}
	return r
}

// AlteredNotes returns the letters altered by the signature, in conventional order.
func (k Key) AlteredNotes() []Note {
	n := k.Signature()
	var r []Note
	if n > 0 {
		for i := 0; i < n; i++ {
			r = append(r, NoteFromPos(-1+7+i)) // F# C# G# ...
		}
	}
	if n < 0 {
		for i := 0; i < -n; i++ {
			r = append(r, NoteFromPos(5-7-i)) // Bb Eb Ab ...
		}
	}
	return r
}

// TonicOffset is the semitone offset of the tonic above C as spelled (Cb = -1).
func (k Key) TonicOffset() int { return k.Tonic.Offset() }

// Conversion step on the circle of fifths.
func (k Key) Step(c byte) (pc int, minor bool) {
	pc = k.Tonic.PC()
	switch c {
	case 'd':
		return mod(pc+7, 12), k.Minor
	case 's':
		return mod(pc-7, 12), k.Minor
	case 'p':
		return pc, !k.Minor
	case 'r':
		if k.Minor {
			return mod(pc+3, 12), false
		}
		return mod(pc-3, 12), true
	}
	panic("bad conversion")
}

// SpellingsOf lists the supported keys with the pitch class and mode, sorted by name.
func SpellingsOf(pc int, minor bool) []string {
	var r []string
	for _, k := range SupportedKeys() {
		if k.Minor == minor && k.Tonic.PC() == pc {
			r = append(r, k.String())
		}
	}
	sort.Strings(r)
	return r
}

// LetterDistance is the 1-based letter distance from a up to b (1..7).
func LetterDistance(a, b Note) int { return mod(b.Letter-a.Letter, 7) + 1 }

// PitchDistance is the ascending distance in semitones modulo 12.
func PitchDistance(a, b Note) int { return mod(b.PC()-a.PC(), 12) }
