// Package cli runs the real crd binary built from /repo's working tree.
package cli

import (
	"bytes"
	"context"
	"errors"
	"os"
	"os/exec"
	"strings"
	"sync/atomic"
	"syscall"
	"time"
)

// Bin is the path of the crd binary for this run (set by vcheck).
var Bin string

// Scratch is a per-run scratch directory outside /repo and /verif.
var Scratch string

// Res is what one process run showed.
type Res struct {
	Exit     int    `json:"exit"`
	Signal   string `json:"signal,omitempty"`
	TimedOut bool   `json:"timed_out,omitempty"`
	Stdout   []byte `json:"-"`
	Stderr   []byte `json:"-"`
}

func (r Res) OK() bool { return r.Exit == 0 && !r.TimedOut && r.Signal == "" }

// Crashed reports a panic, runtime fatal error or signal.
func (r Res) Crashed() bool {
	if r.Signal != "" {
		return true
	}
	s := string(r.Stderr)
	// a panic inside a String method is recovered by fmt and printed as %!s(PANIC=...)
	if strings.Contains(s, "(PANIC=") || bytes.Contains(r.Stdout, []byte("(PANIC=")) {
		return true
	}
	return strings.Contains(s, "panic:") || strings.Contains(s, "fatal error:") || strings.Contains(s, "goroutine 1 [") || r.Exit == 2 && strings.Contains(s, "runtime.")
}

// Opt configures a run.
type Opt struct {
	Bin     string
	Stdin   []byte
	Dir     string
	Env     []string
	Timeout time.Duration
	// MemKB > 0 bounds the address space (ulimit -v) through a shell wrapper.
	MemKB int
	// Redirect is appended to the command line by a shell wrapper, e.g. ">/dev/full" or ">&-".
	Redirect string
	// StdinDelay > 0: the first byte of stdin arrives only after that long (a slow producer).
	StdinDelay time.Duration
	// StdinChunks > 1 delivers stdin in that many pieces with a pause in between (a pipe fed by a slow writer).
	StdinChunks int
}

func runOnce(o Opt, args []string) Res {
	bin := o.Bin
	if bin == "" {
		bin = Bin
	}
	to := o.Timeout
	if to == 0 {
		to = 10 * time.Second
	}
	ctx, cancel := context.WithTimeout(context.Background(), to)
	defer cancel()
	var cmd *exec.Cmd
	if o.MemKB > 0 || o.Redirect != "" {
		sh := "exec \"$0\" \"$@\" " + o.Redirect
		if o.MemKB > 0 {
			sh = "ulimit -v " + itoa(o.MemKB) + "; " + sh
		}
		cmd = exec.CommandContext(ctx, "/bin/sh", append([]string{"-c", sh, bin}, args...)...)
	} else {
		cmd = exec.CommandContext(ctx, bin, args...)
	}
	if o.StdinDelay > 0 && o.StdinChunks < 2 {
		o.StdinChunks = 1
	}
	if o.StdinChunks > 1 && len(o.Stdin) >= o.StdinChunks || o.StdinDelay > 0 {
		pr, pw, err := os.Pipe()
		if err == nil {
			cmd.Stdin = pr
			go func() {
				defer pw.Close()
				time.Sleep(o.StdinDelay)
				n := len(o.Stdin) / o.StdinChunks
				for i := 0; i < o.StdinChunks; i++ {
					end := (i + 1) * n
					if i == o.StdinChunks-1 {
						end = len(o.Stdin)
					}
					if _, err := pw.Write(o.Stdin[i*n : end]); err != nil {
						return
					}
					time.Sleep(40 * time.Millisecond)
				}
			}()
			defer pr.Close()
		} else {
			cmd.Stdin = bytes.NewReader(o.Stdin)
		}
	} else {
		cmd.Stdin = bytes.NewReader(o.Stdin)
	}
	var so, se bytes.Buffer
	cmd.Stdout = &so
	cmd.Stderr = &se
	cmd.Dir = o.Dir
	cmd.Env = append(os.Environ(), o.Env...)
	cmd.WaitDelay = 2 * time.Second
	err := cmd.Run()
	res := Res{Stdout: so.Bytes(), Stderr: se.Bytes()}
	if ctx.Err() == context.DeadlineExceeded {
		res.TimedOut = true
		res.Exit = -1
		return res
	}
	if err != nil {
		var ee *exec.ExitError
		if errors.As(err, &ee) {
			res.Exit = ee.ExitCode()
			if ws, ok := ee.Sys().(syscall.WaitStatus); ok && ws.Signaled() {
				res.Signal = ws.Signal().String()
			}
		} else {
			res.Exit = -2
			res.Stderr = append(res.Stderr, []byte("\nharness: "+err.Error())...)
		}
	}
	return res
}

func itoa(n int) string {
	if n == 0 {
		return "0"
	}
	var b []byte
	for n > 0 {
		b = append([]byte{byte('0' + n%10)}, b...)
		n /= 10
	}
	return string(b)
}

var confirmedHangs int64

// ConfirmedHangs is the number of reproducible timeouts seen so far in this process.
func ConfirmedHangs() int { return int(atomic.LoadInt64(&confirmedHangs)) }

// TooManyHangs tells the checks to stop feeding the binary: every further case would cost the watchdog time.
func TooManyHangs() bool { return ConfirmedHangs() >= 12 }

// Run runs crd. A timeout is believed only if it reproduces three more times with a
// longer deadline (no short wall-clock oracle); once three hangs have been confirmed that
// way, later timeouts are taken at the first 10 s deadline.
func Run(o Opt, args ...string) Res {
	r := runOnce(o, args)
	if !r.TimedOut {
		return r
	}
	if ConfirmedHangs() >= 3 {
		atomic.AddInt64(&confirmedHangs, 1)
		return r
	}
	o2 := o
	o2.Timeout = 30 * time.Second
	for i := 0; i < 3; i++ {
		r2 := runOnce(o2, args)
		if !r2.TimedOut {
			return r2
		}
	}
	atomic.AddInt64(&confirmedHangs, 1)
	return r
}

// In runs crd with stdin and default options.
func In(stdin string, args ...string) Res { return Run(Opt{Stdin: []byte(stdin)}, args...) }
