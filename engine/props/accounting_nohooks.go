//go:build !verif

package props

import (
	"encoding/json"

	"verif/ev"
)

func writerAccounting(e *Env, prop string, withClose bool, tracks []int, depth int) {
	e.R.AddPart(ev.Part{Name: "writer-accounting", Enumerated: "skipped: the verif hooks do not compile against this tree", Exhaustive: false})
}

func c02Accounting(e *Env) { writerAccounting(e, "C02", false, nil, 0) }

func c02ReplayOps(e *Env, raw json.RawMessage) {}
