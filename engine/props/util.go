package props

import "verif/mc"

func parFor(n int, f func(i int)) { mc.ParFor(n, f) }
