package props

import (
	"bytes"
	"encoding/json"
	"errors"
	"fmt"
	"sort"
	"strings"
	"sync/atomic"

	"verif/cli"
	"verif/ev"
	"verif/mc"
	refplay "verif/ref/play"
	"verif/ref/smf"
	"verif/ref/theory"
	"verif/ref/timing"
)

// C07 — tempo, meter, key-signature and text events: right value at the right time.

func init() {
	register(&Prop{ID: "C07", Run: runC07, Replay: map[string]func(*Env, json.RawMessage){
		"play": func(e *Env, raw json.RawMessage) {
			m, err := newModel(e)
			if err != nil {
				panic(err)
			}
			c := decode[playCase](raw)
			c07Eval(e, m, &c, true)
		},
		"args-ops":      func(e *Env, raw json.RawMessage) { c07ReplayArgs(e, raw) },
		"yaml-spelling": func(e *Env, raw json.RawMessage) { c07YAMLEval(e, decode[c07YAMLCase](raw)) },
	}})
}

func isControlCanon(s string) bool {
	return strings.HasPrefix(s, "meta 51") || strings.HasPrefix(s, "meter ") || strings.HasPrefix(s, "meta 59") ||
		strings.HasPrefix(s, "meta 01") || strings.HasPrefix(s, "meta 05") || strings.HasPrefix(s, "meta 06")
}

// controlView projects a decoded file onto what C07 talks about: control/text meta events
// with their ticks and track, and the velocity of the note-ons at each tick.
func controlView(f *smf.File) (o *refplay.Observed, offTrack0 string) {
	o = &refplay.Observed{Events: map[int64]map[string]int{}}
	add := func(t int64, k string) {
		if o.Events[t] == nil {
			o.Events[t] = map[string]int{}
		}
		o.Events[t][k]++
		o.N++
	}
	for ti, tr := range f.Tracks {
		for _, e := range tr {
			switch {
			case e.IsNoteOn():
				add(e.Tick, fmt.Sprintf("vel%d", e.Data[1]))
			case e.Status == 0xFF:
				k := refplay.CanonObserved(e)
				if isControlCanon(k) {
					add(e.Tick, k)
					if ti != 0 && offTrack0 == "" {
						offTrack0 = fmt.Sprintf("%s in track %d", k, ti)
					}
				}
			}
		}
	}
	return o, offTrack0
}

func controlExpect(m *refplay.Model, insts []refplay.Inst, fl refplay.Flags) []refplay.Exp {
	exp, _, amb, err := m.Expect(insts, fl, nil)
	if errors.Is(err, refplay.ErrUnstatable) {
		return nil
	}
	if err != nil {
		panic("C07 harness: " + err.Error())
	}
	if len(amb) != 0 {
		panic("C07 harness: ambiguous durations in the alphabet")
	}
	var r []refplay.Exp
	for _, x := range exp {
		a := x.Alt[0]
		switch {
		case strings.HasPrefix(a, "on "):
			f := strings.Fields(a)
			r = append(r, refplay.Exp{Tick: x.Tick, Alt: []string{f[3]}, Inst: x.Inst})
		case strings.HasPrefix(a, "off "):
		default:
			r = append(r, x)
		}
	}
	return r
}

func c07Class(msg string) string {
	for _, p := range [][2]string{{"meta 51", "tempo"}, {"meter", "meter"}, {"meta 59", "key-signature"}, {"meta 01", "text"}, {"meta 05", "lyric"}, {"meta 06", "marker"}, {"vel", "velocity"}} {
		if strings.Contains(msg, p[0]) {
			return p[1]
		}
	}
	return "other"
}

func c07Eval(e *Env, m *refplay.Model, c *playCase, report bool) bool {
	doc := refplay.YAML(c.Insts)
	if c.Path == "text-cli" {
		doc = c.ChordText
	}
	res := runWrite(c.Path, doc, c.Cfg)
	e.R.Eval(1)
	fail := func(class, s string) bool {
		if report {
			c.fill()
			e.R.Fail(ev.Fail{Class: class, Msg: s, Kind: "play", Case: c})
		}
		return false
	}
	if _, _, _, xerr := m.Expect(c.Insts, c.Cfg.Flags, nil); errors.Is(xerr, refplay.ErrUnstatable) {
		// a setting no MIDI file can state: the only right answer is a refusal
		switch {
		case res.Crashed || res.Hang:
			return fail("C07/crash/"+c.Path, fmt.Sprintf("%v (flags %v; document %s): %s", xerr, c.Cfg.Flags.Args(), c07Doc(c), res.Err))
		case res.Err == "":
			what := "a file without the event"
			if f, err := smf.Parse(res.Bytes); err == nil {
				obs, _ := controlView(f)
				what = obs.Describe()
			}
			return fail("C07/unstatable-setting-written/"+c.Path, fmt.Sprintf("%v, yet write succeeds and the file states something else (flags %v; document %s; observed %s)", xerr, c.Cfg.Flags.Args(), c07Doc(c), what))
		}
		e.R.Outcome("refused: unstatable")
		return true
	}
	if res.Err != "" && !res.Crashed && !res.Hang && c07SubMicro(c) {
		// 60,000,000/bpm is below one microsecond, the resolution of the event: writing 1 and
		// refusing are both right
		e.R.Outcome("refused: sub-microsecond tempo")
		return true
	}
	if res.Err != "" {
		cl := "C07/refused/" + c.Path
		if res.Crashed {
			cl = "C07/crash/" + c.Path
		}
		return fail(cl, fmt.Sprintf("valid document refused (flags %v): %s", c.Cfg.Flags.Args(), res.Err))
	}
	f, err := smf.Parse(res.Bytes)
	if err != nil {
		return fail("C07/undecodable/"+c.Path, "output is not a readable SMF: "+err.Error())
	}
	if int64(f.Division) != m.T {
		mm := *m
		mm.T = int64(f.Division)
		m = &mm
	}
	obs, off := controlView(f)
	if msg := refplay.Match(controlExpect(m, c.Insts, c.Cfg.Flags), obs); msg != "" {
		return fail("C07/"+c07Class(msg)+"/"+c.Path, fmt.Sprintf("%s; flags %v; document %s; observed %s", msg, c.Cfg.Flags.Args(), c07Doc(c), obs.Describe()))
	}
	_ = off // track placement of control events is C08's clause
	e.R.Outcome(obs.Describe())
	// reference-model state at the end of the history: the settings in force
	var st [4]string
	for i, in := range c.Insts {
		if in.BPM != nil {
			st[0] = fmt.Sprint(*in.BPM)
		}
		if in.Meter != nil {
			st[1] = in.Meter.String()
		}
		if in.Key != nil {
			st[2] = *in.Key
		}
		if in.Vel != nil {
			st[3] = *in.Vel
		}
		_ = i
	}
	e.R.State("in-force:" + strings.Join(st[:], ","))
	return true
}

// c07SubMicro: some tempo of the case is faster than one microsecond per quarter note.
func c07SubMicro(c *playCase) bool {
	if b := c.Cfg.Flags.BPM; b != nil && *b > 60000000 {
		return true
	}
	for _, in := range c.Insts {
		if in.BPM != nil && *in.BPM > 60000000 {
			return true
		}
	}
	return false
}

func c07Doc(c *playCase) string {
	var s []string
	for _, in := range c.Insts {
		k := "R"
		if in.Chord != nil {
			k = "C"
		}
		var a []string
		if in.BPM != nil {
			a = append(a, fmt.Sprintf("bpm=%d", *in.BPM))
		}
		if in.Meter != nil {
			a = append(a, "mtr="+in.Meter.String())
		}
		if in.Key != nil {
			a = append(a, "key="+*in.Key)
		}
		if in.Vel != nil {
			a = append(a, "vel="+*in.Vel)
		}
		for _, mk := range []string{"txt", "lic", "mrk"} {
			if v, ok := in.Meta[mk]; ok {
				a = append(a, fmt.Sprintf("%s=%q", mk, v))
			}
		}
		s = append(s, k+"{"+strings.Join(a, ",")+"}")
	}
	return strings.Join(s, " ")
}

var (
	c07Keys   = []string{"Eb", "F#m", "A", "Cm"}
	c07Meters = []timing.Frac{{Num: 3, Den: 4}, {Num: 6, Den: 8}, {Num: 5, Den: 4}, {Num: 2, Den: 2}}
	c07Dyn    = []string{"ff", "pp", "mf", "p"}
)

// c07Inst builds instance i of a history from its choices.
// c07Constant makes every instance use the same values (a setting repeated with the value it already has).
var c07Constant bool

func c07Inst(i int, rest bool, set [7]bool) refplay.Inst {
	if c07Constant {
		i = 1
	}
	in := refplay.Inst{Values: one()}
	if !rest {
		in.Chord = &refplay.Chord{Degree: iv("1"), Symbol: ""}
	}
	if set[0] {
		in.BPM = up(uint64(120 + 13*i))
	}
	if set[1] {
		mt := c07Meters[i%len(c07Meters)]
		in.Meter = &mt
	}
	if set[2] {
		in.Key = sp(c07Keys[i%len(c07Keys)])
	}
	if set[3] {
		in.Vel = sp(c07Dyn[i%len(c07Dyn)])
	}
	for j, mk := range []string{"txt", "lic", "mrk"} {
		if set[4+j] {
			if in.Meta == nil {
				in.Meta = map[string]string{}
			}
			in.Meta[mk] = fmt.Sprintf("%s %d é", mk, i)
		}
	}
	return in
}

// c07YAMLFeatures: the same document written with YAML features (anchors and aliases, flow
// style, comments, quoting) must give the same file as the plain spelling, under every flag subset;
// an alias shares nothing between instances (the flags still replace instance 0's settings only).
type c07YAMLCase struct {
	Name    string   `json:"name"`
	Feature string   `json:"with_yaml_feature"`
	Plain   string   `json:"plain"`
	Flags   []string `json:"flags"`
	Path    string   `json:"path"`
}

func c07YAMLEval(e *Env, c c07YAMLCase) {
	e.R.Eval(1)
	run := func(doc string) ([]byte, string) {
		if c.Path == "cli" {
			r := cli.Run(cli.Opt{Stdin: []byte(doc)}, append([]string{"write"}, c.Flags...)...)
			if !r.OK() {
				return nil, firstLine(r.Stderr)
			}
			return r.Stdout, ""
		}
		var cfg writeCfg
		for i := 0; i+1 < len(c.Flags); i += 2 {
			v := c.Flags[i+1]
			switch c.Flags[i] {
			case "--bpm":
				var b uint64
				fmt.Sscan(v, &b)
				cfg.Flags.BPM = &b
			case "--key", "-k":
				cfg.Flags.Key = &v
			case "--velocity":
				cfg.Flags.Vel = &v
			}
		}
		b, err := implWriteLib(doc, cfg)
		if err != nil {
			return nil, err.Error()
		}
		return b, ""
	}
	a, ea := run(c.Feature)
	b, eb := run(c.Plain)
	if ea != "" || eb != "" || !bytes.Equal(a, b) {
		e.R.Fail(ev.Fail{Class: "C07/yaml-spelling/" + c.Name, Msg: fmt.Sprintf("flags %v (%s): the document written with %s does not give the file of its plain spelling (errors %q / %q)\n--- with feature ---\n%s--- plain ---\n%s", c.Flags, c.Path, c.Name, ea, eb, c.Feature, c.Plain), Kind: "yaml-spelling", Case: c})
	}
}

func c07YAMLFeatures(e *Env) {
	inst := func(extra string) string {
		return "- chord:\n    degree: \"5\"\n    name: \"7\"\n  values:\n    - \"1\"\n" + extra
	}
	set := "  bpm: 90\n  velocity: ff\n  key: Eb\n  meta:\n    txt: hi\n"
	pairs := []struct{ name, feat, plain string }{
		{"alias-of-an-instance", "- &a\n  chord:\n    degree: \"5\"\n    name: \"7\"\n  values:\n    - \"1\"\n" + set + "- *a\n- *a\n", inst(set) + inst(set) + inst(set)},
		{"alias-of-values", "- chord: {degree: \"5\", name: \"7\"}\n  values: &v [\"1\"]\n- chord: {degree: \"5\", name: \"7\"}\n  values: *v\n" + set, inst("") + inst(set)},
		{"alias-of-meta-and-settings", "- chord: {degree: \"5\", name: \"7\"}\n  values: [\"1\"]\n  bpm: &b 90\n  velocity: &d ff\n  key: &k Eb\n  meta: &m {txt: hi}\n- chord: {degree: \"5\", name: \"7\"}\n  values: [\"1\"]\n  bpm: *b\n  velocity: *d\n  key: *k\n  meta: *m\n", inst(set) + inst(set)},
		{"flow-style-and-comments", "# a piece\n- {chord: {degree: \"5\", name: \"7\"}, values: [\"1\"], bpm: 90, velocity: ff, key: Eb, meta: {txt: hi}} # first\n- {values: [\"1\"]}\n", inst(set) + "- values:\n    - \"1\"\n"},
		{"unquoted-and-single-quoted-scalars", "- chord:\n    degree: 5\n    name: '7'\n  values:\n    - 1\n  bpm: 90\n  velocity: ff\n  key: Eb\n  meta:\n    txt: hi\n", inst(set)},
		{"document-start-marker", "---\n" + inst(set), inst(set)},
	}
	// texts that look like numbers, dates or booleans, typed without quotes: the text event carries what was typed
	for _, t := range [][3]string{{"007", "1.50", "0x1F"}, {"1_000", "2001-01-01", "true"}, {"1e3", ".5", "No"}, {"+1", "0o7", "1:30"}, {"0b11", "1.0e+2", "Off"}} {
		un := fmt.Sprintf("  meta:\n    txt: %s\n    lic: %s\n    mrk: %s\n", t[0], t[1], t[2])
		qu := fmt.Sprintf("  meta:\n    txt: %q\n    lic: %q\n    mrk: %q\n", t[0], t[1], t[2])
		pairs = append(pairs, struct{ name, feat, plain string }{"unquoted-text-that-looks-like-a-number", inst(un) + inst(""), inst(qu) + inst("")})
	}
	flagSets := [][]string{nil, {"--bpm", "77"}, {"--key", "A"}, {"-k", "A"}, {"--velocity", "p", "--key", "F#m"}, {"--bpm", "61", "--bpm", "77"}}
	var cases []c07YAMLCase
	for _, p := range pairs {
		for _, f := range flagSets {
			for _, path := range []string{"lib", "cli"} {
				if path == "lib" && len(f) > 0 && (f[0] == "-k" || len(f) == 4 && f[0] == "--bpm") {
					continue
				}
				cases = append(cases, c07YAMLCase{p.name, p.feat, p.plain, f, path})
			}
		}
	}
	mc.ParFor(len(cases), func(i int) {
		c07YAMLEval(e, cases[i])
		e.R.Trace(1)
		e.R.NonTrivialN(1)
	})
	e.R.AddPart(ev.Part{Name: "yaml-spellings", Enumerated: "11 YAML spellings (alias of an instance / of values / of settings and meta, flow style with comments, unquoted and single-quoted scalars, document-start marker, texts typed without quotes that look like numbers, dates or booleans) x 6 flag sets (incl. -k and a repeated flag) x {in-process, real binary}: same bytes as the plain spelling", Executions: int64(len(cases)), Exhaustive: true})
}

func runC07(e *Env) {
	e.R.Rule = "settings histories: per instance kind {chord, rest} (free) and presence of bpm, meter, key, velocity, txt, lic, mrk (one deviation each), all histories within the stated length/deviation bounds; value sweeps of every setting over its domain; 16 flag subsets x 256 two-instance documents through the real binary; explicit-state search of the real midiArgs cells. distinct = distinct document+flags; non-trivial = at least one setting or flag present"
	e.R.Assume("reference: ref/play (tempo within <1 us of 60e6/bpm, numerator and log2 denominator, signature from line of fifths, exact UTF-8 text bytes); velocities learned from six single-dynamic documents and required to be strictly increasing pp<p<mp<mf<f<ff in 1..127; same-tick order not prescribed (per-tick multisets)")
	e.R.Exclude("empty texts")
	m, err := newModel(e)
	if err != nil {
		panic(err)
	}
	if _, msg := learnVelocities(); msg != "" {
		e.R.Fail(ev.Fail{Class: "C07/velocity-table", Msg: "dynamics are not a strictly increasing map into 1..127: " + msg, Kind: "play", Case: playCase{Path: "lib", Insts: []refplay.Inst{c07Inst(0, false, [7]bool{})}}})
	}

	// (1) settings histories with a deviation bound
	explore := func(name string, maxLen, bound int) {
		var n int64
		st := mc.Explore(bound, 0, func(ch *mc.Chooser) {
			L := 1 + ch.ChooseFree(maxLen)
			c := playCase{Path: "lib"}
			nontrivial := false
			for i := 0; i < L; i++ {
				rest := ch.ChooseFree(2) == 1
				var set [7]bool
				for j := range set {
					set[j] = ch.Choose(2) == 1
					nontrivial = nontrivial || set[j]
				}
				c.Insts = append(c.Insts, c07Inst(i, rest, set))
			}
			// a trailing chord makes the last velocity observable
			c.Insts = append(c.Insts, c07Inst(L, false, [7]bool{}))
			if !c07Eval(e, m, &c, false) {
				c07Eval(e, m, &c, true)
			}
			atomic.AddInt64(&n, 1)
			e.R.Trace(1)
			e.R.Transition(int64(L))
			if nontrivial {
				e.R.NonTrivial(fmt.Sprint(ch.Choices()))
			}
		})
		e.R.AddPart(ev.Part{Name: name, Enumerated: fmt.Sprintf("all settings histories of length <= %d with <= %d present settings (deviations), kind chord/rest free", maxLen, bound), Executions: st.Executions, Exhaustive: true})
	}
	c07Constant = true
	explore("histories-len3-dev3-repeated-values", 3, 3)
	c07Constant = false
	if e.Thorough {
		explore("histories-len3-dev6", 3, 6)
		explore("histories-len4-dev4", 4, 4)
		explore("histories-len5-dev2", 5, 2)
	} else {
		explore("histories-len3-dev4", 3, 4)
		explore("histories-len4-dev3", 4, 3)
	}
	e.R.Sample(map[string]any{"history": "C{bpm=120,txt} R{key=F#m,vel=pp} C{} C", "oracle": "tick 0: tempo 120, 4/4, C signature, text; tick 960: F#m signature (3 sharps, minor); tick 1920: chord at pp velocity"})

	// (2) value sweeps, one setting at a time, at instance 0 and at instance 2 (after a rest)
	var sweeps []playCase
	addSweep := func(mod func(in *refplay.Inst)) {
		for _, pos := range []int{0, 2} {
			c := playCase{Path: "lib"}
			for i := 0; i < 3; i++ {
				in := c07Inst(i, i == 1, [7]bool{})
				if i == pos {
					mod(&in)
				}
				c.Insts = append(c.Insts, in)
			}
			c.Insts = append(c.Insts, c07Inst(3, false, [7]bool{}))
			sweeps = append(sweeps, c)
		}
	}
	bpms := []uint64{1, 2, 3, 4, 5, 7, 60, 100, 101, 119, 255, 256, 257, 300, 512, 999, 1000, 1536, 2560, 4096, 65535, 65536, 1000000, 16777215, 16777216, 59999999, 60000000, 60000001, 119999999, 120000000, 120000001, 1 << 31, 1<<32 - 1, 1 << 32, 1<<63 - 1, 1 << 63, 1<<64 - 1}
	for _, b := range bpms {
		b := b
		addSweep(func(in *refplay.Inst) { in.BPM = &b })
	}
	meters := []timing.Frac{{Num: 1, Den: 1}, {Num: 2, Den: 2}, {Num: 3, Den: 4}, {Num: 4, Den: 4}, {Num: 5, Den: 4}, {Num: 6, Den: 8}, {Num: 7, Den: 8}, {Num: 12, Den: 16}, {Num: 255, Den: 128}, {Num: 9, Den: 32}, {Num: 11, Den: 64},
		{Num: 16, Den: 16}, {Num: 128, Den: 1}, {Num: 127, Den: 2}, {Num: 255, Den: 1}, {Num: 256, Den: 4}, {Num: 257, Den: 4}, {Num: 300, Den: 4}, {Num: 65536, Den: 4}, {Num: 4, Den: 3}, {Num: 5, Den: 6}, {Num: 4, Den: 12}, {Num: 4, Den: 255}, {Num: 4, Den: 256}, {Num: 4, Den: 512}, {Num: 4, Den: 65536}, {Num: 1 << 32, Den: 4}, {Num: 4, Den: 1 << 32}}
	for _, mt := range meters {
		mt := mt
		addSweep(func(in *refplay.Inst) { in.Meter = &mt })
	}
	// the same values as --bpm / --meter flags (one flag, plain three-instance document)
	for _, b := range bpms {
		c := playCase{Path: "cli", Cfg: writeCfg{Flags: refplay.Flags{BPM: up(b)}}}
		for i := 0; i < 3; i++ {
			c.Insts = append(c.Insts, c07Inst(i, i == 1, [7]bool{}))
		}
		sweeps = append(sweeps, c)
	}
	for _, mt := range meters {
		mt := mt
		c := playCase{Path: "cli", Cfg: writeCfg{Flags: refplay.Flags{Meter: &mt}}}
		for i := 0; i < 3; i++ {
			c.Insts = append(c.Insts, c07Inst(i, i == 1, [7]bool{}))
		}
		sweeps = append(sweeps, c)
	}
	for _, k := range theory.SupportedKeyNames {
		k := k
		addSweep(func(in *refplay.Inst) { in.Key = &k })
	}
	for _, d := range refplay.Dynamics {
		d := d
		addSweep(func(in *refplay.Inst) { in.Vel = &d })
	}
	texts := []string{"I", "é", "♯𝄪", "a: b", "#x", " lead", "x\ty", strings.Repeat("long text ", 30), "e\u0301", "trail ", "'q'", "\"d\"",
		strings.Repeat("a", 127), strings.Repeat("b", 128), strings.Repeat("c", 16383), strings.Repeat("d", 16384), strings.Repeat("é", 8192) + "x"}
	for _, t := range texts {
		for _, mk := range []string{"txt", "lic", "mrk"} {
			t, mk := t, mk
			addSweep(func(in *refplay.Inst) { in.Meta = map[string]string{mk: t} })
		}
	}
	mc.ParFor(len(sweeps), func(i int) {
		c := sweeps[i]
		c07Eval(e, m, &c, true)
		e.R.Trace(1)
		e.R.NonTrivial("sweep" + fmt.Sprint(i))
		if c.Path == "lib" {
			cc := c
			cc.Path = "cli"
			c07Eval(e, m, &cc, true)
		}
	})
	e.R.AddPart(ev.Part{Name: "value-sweeps", Enumerated: fmt.Sprintf("%d bpm values (1..5, byte/16/24/32/63/64-bit boundaries, 6e7 and 1.2e8 +-1, 512/1536/2560 where 60e6/bpm ends in .5) and %d meters (incl. numerators 256, 257, 300, 65536, 2^32 and denominators 3, 6, 12, 255, 256, 512, 65536, 2^32), 28 keys, 6 dynamics, 17 texts (incl. 127/128/16383/16384/16385 bytes: the length is a variable-length quantity) x {txt,lic,mrk}; each at instance 0 and at instance 2 after a rest, in-process and through the binary, the bpm and meter values also as --bpm/--meter; a value no MIDI file can state (tempo outside 1..2^24-1 us, numerator > 255, denominator not a power of two <= 128) must be refused", len(bpms), len(meters)), Executions: int64(len(sweeps)), Exhaustive: true})

	// (3) flags x documents through the real binary
	var fcases []playCase
	flagKey, flagVel := "A", "f"
	flagMeter := timing.Frac{Num: 7, Den: 8}
	for fs := 0; fs < 16; fs++ {
		var fl refplay.Flags
		if fs&1 != 0 {
			fl.BPM = up(77)
		}
		if fs&2 != 0 {
			fl.Meter = &flagMeter
		}
		if fs&4 != 0 {
			fl.Key = &flagKey
		}
		if fs&8 != 0 {
			fl.Vel = &flagVel
		}
		for d := 0; d < 256; d++ {
			var s0, s1 [7]bool
			for j := 0; j < 4; j++ {
				s0[j] = d>>uint(j)&1 == 1
				s1[j] = d>>uint(4+j)&1 == 1
			}
			c := playCase{Path: "cli", Cfg: writeCfg{Flags: fl}}
			c.Insts = []refplay.Inst{c07Inst(0, false, s0), c07Inst(1, false, s1), c07Inst(2, false, [7]bool{})}
			fcases = append(fcases, c)
		}
	}
	// the first instance may be a rest: the flags still replace its settings (glue in package main: real binary only)
	nChordFirst := len(fcases)
	for fs := 1; fs < 16; fs++ {
		var fl refplay.Flags
		if fs&1 != 0 {
			fl.BPM = up(77)
		}
		if fs&2 != 0 {
			fl.Meter = &flagMeter
		}
		if fs&4 != 0 {
			fl.Key = &flagKey
		}
		if fs&8 != 0 {
			fl.Vel = &flagVel
		}
		for d := 0; d < 4; d++ {
			var s0, s1 [7]bool
			if d&1 != 0 {
				s0 = [7]bool{true, true, true, true}
			}
			if d&2 != 0 {
				s1 = [7]bool{true, true, true, true}
			}
			c := playCase{Path: "cli", Cfg: writeCfg{Flags: fl}}
			c.Insts = []refplay.Inst{c07Inst(0, true, s0), c07Inst(1, d&2 != 0 && d&1 != 0, s1), c07Inst(2, false, [7]bool{})}
			fcases = append(fcases, c)
		}
	}
	step := 1
	if !e.Thorough {
		step = 2 // quick: every 4th document for each flag subset through the CLI, all in-process
	}
	mc.ParFor(len(fcases), func(i int) {
		c := fcases[i]
		lc := c
		lc.Path = "lib"
		c07Eval(e, m, &lc, true)
		if i%step == 0 || i >= nChordFirst {
			c07Eval(e, m, &c, true)
		}
		e.R.Trace(1)
		e.R.NonTrivial("flags" + fmt.Sprint(i))
	})
	e.R.AddPart(ev.Part{Name: "flags-x-documents", Enumerated: fmt.Sprintf("16 subsets of {--bpm,--meter,--key,--velocity} x 256 documents (each of the 4 settings present/absent on instance 0 and on instance 1): in-process all 4096, real binary every %d-th; plus 15 non-empty flag subsets x 4 documents whose first instance is a rest (real binary, all)", step), Executions: int64(len(fcases)), Exhaustive: true})

	c07YAMLFeatures(e)
	// settings written in chord text ({bpm=..,mtr=..,key=..,vel=..,txt=..,lic=..,mrk=..}) on a chord, on a
	// rest, on the chord after the rest: through `text conv degree | write` they mean what the
	// equivalent instances document means
	type tset struct {
		text string
		mod  func(in *refplay.Inst)
	}
	tsets := []tset{
		{"bpm=133", func(in *refplay.Inst) { in.BPM = up(133) }},
		{"mtr=7/8", func(in *refplay.Inst) { in.Meter = &timing.Frac{Num: 7, Den: 8} }},
		{"key=Eb", func(in *refplay.Inst) { in.Key = sp("Eb") }},
		{"vel=ff", func(in *refplay.Inst) { in.Vel = sp("ff") }},
		{"txt=t é", func(in *refplay.Inst) { in.Meta = map[string]string{"txt": "t é"} }},
		{"lic=la", func(in *refplay.Inst) { in.Meta = map[string]string{"lic": "la"} }},
		{"mrk=A1", func(in *refplay.Inst) { in.Meta = map[string]string{"mrk": "A1"} }},
		{"bpm=61,mtr=3/4,key=F#m,vel=pp,txt=x,lic=y,mrk=z", func(in *refplay.Inst) {
			in.BPM, in.Meter, in.Key, in.Vel = up(61), &timing.Frac{Num: 3, Den: 4}, sp("F#m"), sp("pp")
			in.Meta = map[string]string{"txt": "x", "lic": "y", "mrk": "z"}
		}},
	}
	var tcases []playCase
	for _, ts := range tsets {
		for pos := 0; pos < 4; pos++ {
			words := []string{"1[1]", "R[1]", "5[1]", "R[1/2]"}
			insts := []refplay.Inst{
				{Chord: &refplay.Chord{Degree: iv("1")}, Values: one()},
				{Values: one()},
				{Chord: &refplay.Chord{Degree: iv("5")}, Values: one()},
				{Values: []timing.Frac{{Num: 1, Den: 2}}},
			}
			words[pos] += "{" + ts.text + "}"
			ts.mod(&insts[pos])
			// metadata that is a setting is also kept as metadata by text conv; only txt/lic/mrk become events, which is what the model compares
			tcases = append(tcases, playCase{Path: "text-cli", ChordText: strings.Join(words, " "), Insts: insts})
		}
	}
	mc.ParFor(len(tcases), func(i int) {
		c := tcases[i]
		c07Eval(e, m, &c, true)
		e.R.Trace(1)
	})
	e.R.NonTrivialN(int64(len(tcases)))
	e.R.AddPart(ev.Part{Name: "settings-in-chord-text", Enumerated: "8 metadata groups (each setting alone, all together) on the first chord, on a rest, on the chord after the rest and on a trailing rest of the chord text `1[1] R[1] 5[1] R[1/2]`, through `crd text conv degree | crd write`: the events the equivalent instances document means", Executions: int64(len(tcases)), Exhaustive: true})
	runYAMLForms(e, "C07")
	runLong(e, 16, func(c *playCase) { c07Eval(e, m, c, true) })
	c07ArgsGraph(e)
	var ks []string
	for k := range m.Vel {
		ks = append(ks, fmt.Sprintf("%q=%d", k, m.Vel[k]))
	}
	sort.Strings(ks)
	e.R.Note("learned velocities: " + strings.Join(ks, " "))
}
