//go:build !verif

package props

import (
	"encoding/json"

	"verif/ev"
)

func c07ArgsGraph(e *Env) {
	e.R.AddPart(ev.Part{Name: "midiArgs-graph", Enumerated: "skipped: the verif hooks do not compile against this tree", Exhaustive: false})
}

func c07ReplayArgs(e *Env, raw json.RawMessage) {}
