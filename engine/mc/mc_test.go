package mc

import (
	"sync/atomic"
	"testing"
)

func TestExploreCounts(t *testing.T) {
	count := func(bound int, body func(c *Chooser)) int64 {
		var n int64
		st := Explore(bound, 4, func(c *Chooser) { body(c); atomic.AddInt64(&n, 1) })
		if st.Executions != n {
			t.Fatalf("stats %d vs %d", st.Executions, n)
		}
		return n
	}
	three := func(c *Chooser) { c.Choose(2); c.Choose(2); c.Choose(2) }
	for bound, want := range map[int]int64{0: 1, 1: 4, 2: 7, 3: 8, 9: 8} {
		if got := count(bound, three); got != want {
			t.Errorf("3 binary points, bound %d: %d executions, want %d", bound, got, want)
		}
	}
	// a free point is a full product and costs nothing; the second point exists only on one branch
	dep := func(c *Chooser) {
		if c.ChooseFree(3) == 2 {
			c.Choose(4)
		}
	}
	if got := count(0, dep); got != 3 {
		t.Errorf("free point, bound 0: %d", got)
	}
	if got := count(1, dep); got != 6 {
		t.Errorf("free point, bound 1: %d", got)
	}
	// every choice vector is visited exactly once
	seen := map[[3]int]int{}
	var mu = make(chan struct{}, 1)
	Explore(3, 4, func(c *Chooser) {
		v := [3]int{c.Choose(2), c.Choose(3), c.Choose(2)}
		mu <- struct{}{}
		seen[v]++
		<-mu
	})
	if len(seen) != 12 {
		t.Errorf("%d distinct vectors, want 12", len(seen))
	}
	for v, n := range seen {
		if n != 1 {
			t.Errorf("vector %v visited %d times", v, n)
		}
	}
}

func TestReplayDivergence(t *testing.T) {
	defer func() {
		if r := recover(); r == nil {
			t.Error("an out-of-range replay must fail loudly")
		}
	}()
	c := NewReplay([]int{5})
	c.Choose(2)
}

func TestBFS(t *testing.T) {
	// a counter modulo 5 with operations +1 and +2: 5 states, fixpoint
	r := BFS("0", 2, -1, func(path []int, op int) (string, bool) {
		s := 0
		for _, p := range append(append([]int{}, path...), op) {
			s = (s + p + 1) % 5
		}
		return string(rune('0' + s)), true
	})
	if r.States != 5 || !r.Fixpoint || r.Transitions != 10 {
		t.Errorf("%+v", r)
	}
}
