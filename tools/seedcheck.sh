#!/bin/bash
# tools/seedcheck.sh <outdir> <k> <seed-id> <prop> [more checks...]
# Confirms a seeded change (patch<k>.diff + demo<k>.sh in <outdir>) and runs checks against it.
# Keeps it as /verif/seeded/<seed-id>/ when confirmed. /repo is restored afterwards.
set -u
# a change under test may remove or replace device nodes it is handed (as root): put them back
guard_dev() { [ -c /dev/full ] || { rm -f /dev/full; mknod -m 666 /dev/full c 1 7 && echo "note: /dev/full had been replaced and was restored" >&2; }; [ -c /dev/null ] || { rm -f /dev/null; mknod -m 666 /dev/null c 1 3; }; }
guard_dev
OUT=$1; K=$2; ID=$3; PROP=$4; shift 4; CHECKS="$PROP $*"
export GOFLAGS=-mod=mod GOPROXY=off
V=/verif                     # where confirmed seeds are kept
R=${SEED_REPO:-/repo}        # the tree that is patched (a worktree of /repo to leave /repo alone)
CV=${SEED_VERIF:-/verif}     # the copy of /verif whose checks run (its engine must point at $R)
cd $R || exit 2
if [ -n "$(git status --porcelain)" ]; then echo "$R not clean"; exit 2; fi
PATCH=$OUT/patch$K.diff
APPLY="git apply"
if ! git apply --check "$PATCH" 2>/dev/null; then
  if patch -p1 --dry-run -F3 -s < "$PATCH" >/dev/null 2>&1; then APPLY="patch -p1 -F3 -s -i"; else echo "SEED $ID patch does not apply"; exit 2; fi
fi
S=$(mktemp -d /var/tmp/seed.XXXXXX); trap 'git -C $R checkout -- . ; git -C $R clean -fdq; rm -rf "$S"' EXIT
go build -o $S/crd-clean ./cmd || exit 2
$APPLY "$PATCH"
find . -name '*.orig' -delete
git diff > $S/applied.diff
BUILD=ok; go build ./... >/dev/null 2>&1 || BUILD=fail
TESTS=pass; go test -vet=off -count=1 ./... >$S/test.log 2>&1 || TESTS=fail
go build -o $S/crd-mut ./cmd
DEMO_MUT=na; DEMO_CLEAN=na
if [ -f $OUT/demo$K.sh ]; then
  bash $OUT/demo$K.sh $S/crd-mut >/dev/null 2>&1; DEMO_MUT=$?
  bash $OUT/demo$K.sh $S/crd-clean >/dev/null 2>&1; DEMO_CLEAN=$?
fi
RES=""
for c in $CHECKS; do
  (cd $CV && VERIF_REPO=$R timeout 1500 ./check $c quick > $S/$c.log 2>&1); rc=$?
  cls=$(grep -E "^FAIL class=" $S/$c.log | sed 's/ cases=.*//;s/FAIL class=//' | head -4 | tr '\n' ' ')
  RES="$RES $c=$rc[$cls]"
done
echo "SEED $ID build=$BUILD tests=$TESTS demo_mut=$DEMO_MUT demo_clean=$DEMO_CLEAN checks:$RES"
if [ "$BUILD" = ok ] && [ "$TESTS" = pass ] && [ "$DEMO_MUT" != 0 ] && [ "$DEMO_CLEAN" = 0 ]; then
  mkdir -p $V/seeded/$ID
  cp $S/applied.diff $V/seeded/$ID/patch.diff
  cp $OUT/demo$K.sh $V/seeded/$ID/demo.sh 2>/dev/null
  cp $OUT/meta$K.txt $V/seeded/$ID/meta.txt 2>/dev/null
  python3 - "$ID" "$PROP" "$RES" "$OUT/meta$K.txt" <<'PY'
import json,sys
id,prop,res,meta=sys.argv[1:5]
try: m=open(meta).read()
except Exception: m=""
json.dump({"id":id,"breaks_property":prop,"needs_to_manifest":m.strip(),
 "confirmed":{"compiles":True,"existing_tests_pass":True,"demo_fails_with_change":True,"demo_passes_without":True},
 "ran":"tools/seedcheck.sh: git apply; go build ./...; go test -vet=off -count=1 ./...; demo.sh <crd>; ./check <ID> quick; git checkout -- .",
 "check_results_quick":res.strip()}, open(f"/verif/seeded/{id}/meta.json","w"), indent=1)
PY
fi
guard_dev
