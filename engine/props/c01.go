package props

import (
	"encoding/json"
	"fmt"
	"sort"
	"strings"
	"sync/atomic"

	"verif/ev"
	"verif/mc"
	refplay "verif/ref/play"
	"verif/ref/smf"
	"verif/ref/theory"
)

// C01 — every chord sounds exactly the pitches its degree, symbol and bass denote.

func init() {
	register(&Prop{ID: "C01", Run: runC01, Replay: map[string]func(*Env, json.RawMessage){
		"play": func(e *Env, raw json.RawMessage) {
			m, err := newModel(e)
			if err != nil {
				panic(err)
			}
			c := decode[playCase](raw)
			c01Eval(e, m, &c, true)
		},
	}})
}

// c01Eval runs one document and compares the struck pitches chord by chord.
// Returns the index (among instances) of the first chord that sounds wrong, or -1.
func c01Eval(e *Env, m *refplay.Model, c *playCase, report bool) (bad int, msg, class string) {
	doc := refplay.YAML(c.Insts)
	want, idx, err := expectedGroups(m, c.Insts, c.Cfg.Flags)
	if err != nil {
		panic("C01 harness: reference cannot read its own case: " + err.Error())
	}
	res := runWrite(c.Path, doc, c.Cfg)
	e.R.Eval(1)
	fail := func(i int, class, s string) (int, string, string) {
		if report {
			c.fill()
			e.R.Fail(ev.Fail{Class: class, Msg: s, Kind: "play", Case: c})
		}
		return i, s, class
	}
	if res.Err != "" {
		cl := "C01/refused/" + c.Path
		if res.Crashed {
			cl = "C01/crash/" + c.Path
		}
		return fail(0, cl, fmt.Sprintf("valid in-range document refused (%s): %s", c.Path, res.Err))
	}
	f, err := smf.Parse(res.Bytes)
	if err != nil {
		return fail(0, "C01/undecodable/"+c.Path, "output is not a readable SMF: "+err.Error())
	}
	_, got := noteOnGroups(f)
	for i := range want {
		if i >= len(got) {
			return fail(idx[i], "C01/missing-chord/"+c.Path, fmt.Sprintf("chord at instance %d sounds nothing; %d chords expected, %d note-on groups found", idx[i], len(want), len(got)))
		}
		if !eqInts(want[i], got[i]) {
			ch := c.Insts[idx[i]].Chord
			return fail(idx[i], "C01/pitches/"+c.Path, fmt.Sprintf("instance %d (degree %s symbol %q bass %v): sounds %v, must sound %v", idx[i], ch.Degree.Notation(), ch.Symbol, bassStr(ch), got[i], want[i]))
		}
	}
	if len(got) > len(want) {
		return fail(len(c.Insts)-1, "C01/extra-notes/"+c.Path, fmt.Sprintf("%d note-on groups for %d chords: extra %v", len(got), len(want), got[len(want):]))
	}
	return -1, "", ""
}

func bassStr(c *refplay.Chord) string {
	if c.Bass == nil {
		return "-"
	}
	return c.Bass.Notation()
}

// c01Doc evaluates a batched document; on failure the offending chord is re-run alone
// (with the key it was governed by) so that the replay file is minimal.
func c01Doc(e *Env, m *refplay.Model, c *playCase) {
	bad, _, _ := c01Eval(e, m, c, false)
	e.R.Trace(1)
	if bad < 0 {
		return
	}
	// minimise: the failing instance alone, preceded by the key in force
	var key *string
	for i := 0; i <= bad && i < len(c.Insts); i++ {
		if c.Insts[i].Key != nil {
			key = c.Insts[i].Key
		}
	}
	if bad < len(c.Insts) && c.Insts[bad].Chord != nil {
		single := playCase{Insts: []refplay.Inst{c.Insts[bad]}, Cfg: c.Cfg, Path: c.Path}
		single.Insts[0].Key = key
		if b, _, _ := c01Eval(e, m, &single, true); b >= 0 {
			return
		}
	}
	c01Eval(e, m, c, true)
}

func runC01(e *Env) {
	e.R.Rule = "every (key, degree, symbol look-up, bass) chord and every key-change history in the stated alphabets is played by the real write path and its struck pitches compared with 60+tonic+degree(+tone | +bass-12) from ref/theory and ref/dict; a case is distinct by its (key, degree, symbol, bass) or history and non-trivial when it contains at least one chord"
	e.R.Assume("reference: ref/theory sizes, ref/dict expansion of chord/*.yml on disk (parent first), ref/smf decoder; tonic offset of a key = natural letter offset above C plus its accidental (Cb = -1)")
	m, err := newModel(e)
	if err != nil {
		panic(err)
	}
	keys := theory.SupportedKeys()
	degrees := theory.IntervalsUpTo(15)
	var lookups []string
	seen := map[string]bool{}
	for _, c := range m.Dict.Order {
		for _, s := range []string{c.Name, c.Meta.Display} {
			if !seen[s] {
				seen[s] = true
				lookups = append(lookups, s)
			}
		}
	}
	basses := append([]*theory.Interval{nil}, func() []*theory.Interval {
		var r []*theory.Interval
		for i := range degrees {
			r = append(r, &degrees[i])
		}
		return r
	}()...)

	// (a) single-chord product, batched per document
	type job struct {
		key    theory.Key
		symbol []string
		degree []theory.Interval
		bass   []*theory.Interval
	}
	var jobs []job
	if e.Thorough {
		for _, k := range keys {
			for _, s := range lookups {
				for _, d := range degrees {
					jobs = append(jobs, job{k, []string{s}, []theory.Interval{d}, basses})
				}
			}
		}
	} else {
		for _, k := range keys {
			for _, s := range lookups {
				jobs = append(jobs, job{k, []string{s}, degrees, []*theory.Interval{nil}})
			}
			for _, s := range []string{"", "m7"} {
				for _, d := range degrees {
					jobs = append(jobs, job{k, []string{s}, []theory.Interval{d}, basses[1:]})
				}
			}
		}
	}
	var chords int64
	mc.ParFor(len(jobs), func(i int) {
		j := jobs[i]
		c := playCase{Path: "lib"}
		first := true
		for _, s := range j.symbol {
			for _, d := range j.degree {
				for _, b := range j.bass {
					in := refplay.Inst{Chord: &refplay.Chord{Degree: d, Symbol: s, Bass: b}, Values: one()}
					if first {
						in.Key = sp(j.key.String())
						first = false
					}
					c.Insts = append(c.Insts, in)
				}
			}
		}
		c01Doc(e, m, &c)
		e.R.Transition(int64(len(c.Insts)))
	})
	for _, j := range jobs {
		chords += int64(len(j.symbol) * len(j.degree) * len(j.bass))
	}
	for _, k := range keys {
		e.R.State("key-in-force:" + k.String())
	}
	what := "quick faces: 28 keys x 83 degrees x 46 look-ups without bass, and 28 keys x 83 degrees x 83 basses for symbols \"\" and m7"
	if e.Thorough {
		what = "full product 28 keys x 83 degrees x 46 look-ups x 84 basses"
	}
	e.R.AddPart(ev.Part{Name: "single-chord-product", Enumerated: what, Executions: chords, Exhaustive: true, Note: fmt.Sprintf("%d documents", len(jobs))})
	e.R.Sample(map[string]any{"part": "single-chord-product", "key": "Ebm", "degree": "#4", "symbol": "m7b5", "bass": "b7", "expected_pitches": mustPitches(m, "Ebm", "#4", "m7b5", "b7")})
	for _, k := range keys {
		for _, d := range degrees {
			e.R.NonTrivial(k.String() + "/" + d.Notation())
		}
	}

	// (b) key-in-force state machine: BFS to fixpoint, every edge replayed on the implementation
	type opT struct {
		chord bool
		key   *string
	}
	var ops []opT
	for _, ch := range []bool{true, false} {
		ops = append(ops, opT{ch, nil})
		for _, k := range keys {
			ops = append(ops, opT{ch, sp(k.String())})
		}
	}
	mk := func(o opT) refplay.Inst {
		in := refplay.Inst{Values: one(), Key: o.key}
		if o.chord {
			in.Chord = &refplay.Chord{Degree: iv("5"), Symbol: "7", Bass: ivp("3")}
		}
		return in
	}
	probe := refplay.Inst{Chord: &refplay.Chord{Degree: iv("b3"), Symbol: "m7", Bass: ivp("5")}, Values: one()}
	res := mc.BFS("initial", len(ops), -1, func(path []int, op int) (string, bool) {
		c := playCase{Path: "lib"}
		state := "initial"
		for _, p := range append(append([]int{}, path...), op) {
			c.Insts = append(c.Insts, mk(ops[p]))
			if ops[p].key != nil {
				state = *ops[p].key
			}
		}
		c.Insts = append(c.Insts, probe)
		c01Doc(e, m, &c)
		e.R.Transition(1)
		e.R.State("key-in-force:" + state)
		return state, true
	})
	e.R.AddPart(ev.Part{Name: "key-in-force-graph", Enumerated: "state = key in force (initial + 28), operations = {chord V7/3, rest} x {no key, key K}; each edge = access path + op + probe chord bIIIm7/5, pitches of all chords compared", Executions: int64(res.Transitions), States: int64(res.States), Transitions: int64(res.Transitions), Exhaustive: res.Fixpoint})

	// histories of length <= 4 over {chord, rest} x {-, Cb, F#m, A}, with and without --key E
	hk := []*string{nil, sp("Cb"), sp("F#m"), sp("A")}
	var hops []opT
	for _, ch := range []bool{true, false} {
		for _, k := range hk {
			hops = append(hops, opT{ch, k})
		}
	}
	histMax := 4
	if e.Thorough {
		histMax = 5
	}
	var hist [][]int
	var gen func(p []int)
	gen = func(p []int) {
		if len(p) > 0 {
			hist = append(hist, append([]int{}, p...))
		}
		if len(p) == histMax {
			return
		}
		for o := range hops {
			gen(append(p, o))
		}
	}
	gen(nil)
	var nh int64
	for _, flag := range []*string{nil, sp("E")} {
		mc.ParFor(len(hist), func(i int) {
			h := hist[i]
			c := playCase{Path: "lib", Cfg: writeCfg{Flags: refplay.Flags{Key: flag}}}
			for _, o := range h {
				c.Insts = append(c.Insts, mk(hops[o]))
			}
			c.Insts = append(c.Insts, probe)
			c01Doc(e, m, &c)
			e.R.Transition(int64(len(h)))
			if len(h) <= 3 {
				cc := c
				cc.Path = "cli"
				c01Doc(e, m, &cc)
			}
		})
		nh += int64(len(hist))
	}
	e.R.AddPart(ev.Part{Name: "key-change-histories", Enumerated: "all histories of length <= 4 (5 in thorough) over {chord, rest} x {-, Cb, F#m, A}, with and without --key E, probe chord appended; through the real binary for length <= 3", Executions: nh, Exhaustive: true})
	e.R.Sample(map[string]any{"part": "key-change-histories", "history": "[rest key=Cb][chord][chord key=F#m][rest] + probe, --key E"})

	// symbol sequences: every ordered pair of look-ups as [A B A B] in one document (a dictionary that
	// shares state between look-ups shows only when a sibling symbol is resolved in between)
	type sp2 struct{ a, b int }
	var pairs []sp2
	for a := range lookups {
		for b := range lookups {
			pairs = append(pairs, sp2{a, b})
		}
	}
	mc.ParFor(len(pairs), func(i int) {
		pr := pairs[i]
		c := playCase{Path: "lib"}
		for n, s := range []string{lookups[pr.a], lookups[pr.b], lookups[pr.a], lookups[pr.b]} {
			c.Insts = append(c.Insts, refplay.Inst{Chord: &refplay.Chord{Degree: iv([]string{"1", "5", "b3", "4"}[n]), Symbol: s}, Values: one()})
		}
		c01Doc(e, m, &c)
		e.R.Transition(4)
		if i%2 == 0 || e.Thorough {
			cc := c
			cc.Path = "cli"
			c01Doc(e, m, &cc)
		}
	})
	e.R.AddPart(ev.Part{Name: "symbol-sequences", Enumerated: "every ordered pair (A, B) of the 46 look-ups as the document [A B A B]; in-process all, real binary every 2nd (quick) / all (thorough)", Executions: int64(len(pairs)), Exhaustive: true})

	// (c) CLI slice for the glue in package main
	cliDegrees := []string{"1", "b3", "#4", "5", "9"}
	cliBass := []*theory.Interval{nil, ivp("3"), ivp("b7")}
	type cj struct {
		k theory.Key
		d string
		b *theory.Interval
	}
	var cjs []cj
	for _, k := range keys {
		for _, d := range cliDegrees {
			for _, b := range cliBass {
				cjs = append(cjs, cj{k, d, b})
			}
		}
	}
	mc.ParFor(len(cjs), func(i int) {
		j := cjs[i]
		c := playCase{Path: "cli"}
		// the key arrives by flag for every other job, by the first instance otherwise
		if i%2 == 0 {
			c.Cfg.Flags.Key = sp(j.k.String())
		}
		for n, s := range lookups {
			in := refplay.Inst{Chord: &refplay.Chord{Degree: iv(j.d), Symbol: s, Bass: j.b}, Values: one()}
			if n == 0 && i%2 == 1 {
				in.Key = sp(j.k.String())
			}
			c.Insts = append(c.Insts, in)
		}
		c01Doc(e, m, &c)
		e.R.Transition(int64(len(c.Insts)))
	})
	e.R.AddPart(ev.Part{Name: "cli-slice", Enumerated: "real binary: 28 keys x {1,b3,#4,5,9} x {no bass,3,b7} documents of all 46 look-ups; key by --key flag or by first instance alternately", Executions: int64(len(cjs) * len(lookups)), Exhaustive: true})

	// (e) whole-dictionary pieces: every (degree up to the 24th, look-up) chord that stays inside
	// the MIDI range, all in ONE piece per key, in ascending, descending and symbol-major order, with
	// and without a bass: whatever the write path remembers from one chord to the next (a cache,
	// a reused buffer, a running maximum) meets every other chord here
	wide := theory.IntervalsUpTo(24)
	type wjob struct {
		key   theory.Key
		order int
		bass  *theory.Interval
	}
	var wjobs []wjob
	wkeys := keys
	if !e.Thorough {
		wkeys = nil
		for i, k := range keys {
			if i%5 == 0 {
				wkeys = append(wkeys, k)
			}
		}
	}
	for _, k := range wkeys {
		for order := 0; order < 3; order++ {
			wjobs = append(wjobs, wjob{k, order, nil}, wjob{k, order, ivp("5")})
		}
	}
	var wchords int64
	mc.ParFor(len(wjobs), func(i int) {
		j := wjobs[i]
		var all []refplay.Inst
		for _, d := range wide {
			for _, s := range lookups {
				ch := &refplay.Chord{Degree: d, Symbol: s, Bass: j.bass}
				p, err := chordPitches(m, j.key, ch)
				if err != nil || p[0] < 0 || p[len(p)-1] > 127 {
					continue
				}
				all = append(all, refplay.Inst{Chord: ch, Values: one()})
			}
		}
		switch j.order {
		case 1:
			for a, b := 0, len(all)-1; a < b; a, b = a+1, b-1 {
				all[a], all[b] = all[b], all[a]
			}
		case 2:
			sort.SliceStable(all, func(a, b int) bool { return all[a].Chord.Symbol < all[b].Chord.Symbol })
		}
		all[0].Key = sp(j.key.String())
		c := playCase{Path: "lib", Insts: all}
		c01Doc(e, m, &c)
		atomic.AddInt64(&wchords, int64(len(all)))
		e.R.Transition(int64(len(all)))
		e.R.NonTrivialN(1)
		if i%6 == 0 {
			cc := playCase{Path: "cli", Insts: all}
			c01Doc(e, m, &cc)
		}
	})
	e.R.AddPart(ev.Part{Name: "whole-dictionary-pieces", Enumerated: fmt.Sprintf("%d keys x {ascending, descending, grouped by symbol} x {no bass, bass 5}: one piece holding every (degree 1..24 x quality, look-up) chord that stays inside the MIDI range (%d chords in all); in-process, every 6th piece also through the real binary", len(wkeys), wchords), Executions: int64(len(wjobs)), Transitions: wchords, Exhaustive: true})

	runYAMLForms(e, "C01")

	// (d) long documents: the key in force, the look-up and the octave of the 100th chord
	runLong(e, 16, func(c *playCase) { c01Doc(e, m, c) })
}

func mustPitches(m *refplay.Model, key, degree, symbol, bass string) []int {
	k, _ := theory.ParseKey(key)
	p, err := chordPitches(m, k, &refplay.Chord{Degree: iv(degree), Symbol: symbol, Bass: ivp(bass)})
	if err != nil {
		return nil
	}
	return p
}

var _ = strings.Join
