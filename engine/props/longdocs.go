package props

import (
	"fmt"
	"sort"
	"strings"

	"verif/ev"
	"verif/mc"
	refplay "verif/ref/play"
	"verif/ref/timing"
)

// Long documents: what short histories cannot reach is anything that counts — the 100th
// instance, the 128th event, a clock past 2^14 / 2^16 / 2^21 ticks, a key change long after
// the previous one. A long document is a periodic base pattern with exactly one deviation
// (one instance replaced by a variant of itself) at one position; all positions are
// enumerated. The oracles are those of the property the documents are given to.

var longKinds = []string{"none", "key", "key-same", "bpm", "meter", "vel", "txt", "lic-only", "free-meta", "long-rest", "tiny", "symbol", "degree", "bass", "two-values", "to-rest", "to-chord"}

func longBase(i int) refplay.Inst {
	switch i % 5 {
	case 0:
		return refplay.Inst{Chord: &refplay.Chord{Degree: iv("1"), Symbol: ""}, Values: one()}
	case 1:
		return refplay.Inst{Chord: &refplay.Chord{Degree: iv("5"), Symbol: "7", Bass: ivp("3")}, Values: []timing.Frac{{Num: 1, Den: 2}}}
	case 2:
		return refplay.Inst{Values: []timing.Frac{{Num: 1, Den: 4}}}
	case 3:
		return refplay.Inst{Chord: &refplay.Chord{Degree: iv("2"), Symbol: "m9"}, Values: []timing.Frac{{Num: 1, Den: 3}}}
	}
	return refplay.Inst{Chord: &refplay.Chord{Degree: iv("4"), Symbol: ""}, Values: []timing.Frac{{Num: 3, Den: 8}}}
}

func longDeviate(in refplay.Inst, kind string) refplay.Inst {
	switch kind {
	case "key":
		in.Key = sp("F#m")
	case "key-same":
		in.Key = sp("C")
	case "bpm":
		in.BPM = up(77)
	case "meter":
		in.Meter = &timing.Frac{Num: 7, Den: 8}
	case "vel":
		in.Vel = sp("pp")
	case "txt":
		in.Meta = map[string]string{"txt": "x é"}
	case "lic-only":
		in.Meta = map[string]string{"lic": "la"}
	case "free-meta":
		in.Meta = map[string]string{"sec": "A", "foo": "bar"}
	case "long-rest":
		in.Chord = nil
		in.Values = []timing.Frac{{Num: 700, Den: 1}}
	case "tiny":
		in.Values = []timing.Frac{{Num: 1, Den: 64}}
	case "symbol":
		if in.Chord == nil {
			in.Chord = &refplay.Chord{Degree: iv("1")}
		}
		c := *in.Chord
		c.Symbol = "dim7"
		in.Chord = &c
	case "degree":
		if in.Chord == nil {
			in.Chord = &refplay.Chord{Degree: iv("1")}
		}
		c := *in.Chord
		c.Degree = iv("b7")
		in.Chord = &c
	case "bass":
		if in.Chord == nil {
			in.Chord = &refplay.Chord{Degree: iv("1")}
		}
		c := *in.Chord
		c.Bass = ivp("b5")
		in.Chord = &c
	case "two-values":
		in.Values = []timing.Frac{{Num: 1, Den: 1}, {Num: 1, Den: 8}}
	case "to-rest":
		in.Chord = nil
	case "to-chord":
		in.Chord = &refplay.Chord{Degree: iv("6"), Symbol: "m"}
	}
	return in
}

// longDocs lists every (kind, position) one-deviation document of length n over the base
// pattern; positions nil = all.
func longDocs(n int, positions []int, kinds []string) []playCase {
	if positions == nil {
		for p := 0; p < n; p++ {
			positions = append(positions, p)
		}
	}
	if kinds == nil {
		kinds = longKinds
	}
	var r []playCase
	for _, k := range kinds {
		for _, p := range positions {
			if p >= n || (k == "none" && p != positions[0]) {
				continue
			}
			c := playCase{Path: "lib"}
			for i := 0; i < n; i++ {
				in := longBase(i)
				if i == p {
					in = longDeviate(in, k)
				}
				c.Insts = append(c.Insts, in)
			}
			r = append(r, c)
		}
	}
	return r
}

// longPairs lists documents of length n with two deviations, of every ordered pair of kinds,
// at each of the given position pairs.
func longPairs(n int, pairs [][2]int) []playCase {
	var r []playCase
	for _, k1 := range longKinds[1:] {
		for _, k2 := range longKinds[1:] {
			for _, pp := range pairs {
				c := playCase{Path: "lib"}
				for i := 0; i < n; i++ {
					in := longBase(i)
					if i == pp[0] {
						in = longDeviate(in, k1)
					}
					if i == pp[1] {
						in = longDeviate(in, k2)
					}
					c.Insts = append(c.Insts, in)
				}
				r = append(r, c)
			}
		}
	}
	return r
}

func longDescribe(n int, positions []int, kinds []string) string {
	ps := "every position"
	if positions != nil {
		ps = fmt.Sprintf("positions %v", positions)
	}
	if kinds == nil {
		kinds = longKinds
	}
	return fmt.Sprintf("periodic documents of %d instances (period 5: triad 1/1, seventh over a bass 1/2, rest 1/4, m9 1/3, triad 3/8) with one deviation of kind %v at %s", n, kinds, ps)
}

var longBoundary = []int{0, 1, 63, 64, 65, 99, 100, 126, 127, 128, 129, 199, 200, 254, 255, 256, 257, 299}

// runLong gives every long document to eval (in-process) and every cliEvery-th also through
// the real binary.
func runLong(e *Env, cliEvery int, eval func(c *playCase)) {
	type spec struct {
		n     int
		pos   []int
		kinds []string
	}
	specs := []spec{{130, nil, nil}, {300, longBoundary, nil}}
	if e.Thorough {
		specs = []spec{{130, nil, nil}, {300, nil, nil}, {1100, []int{0, 511, 512, 1023, 1024, 1025, 1099}, nil}}
	}
	for _, s := range specs {
		docs := longDocs(s.n, s.pos, s.kinds)
		mc.ParFor(len(docs), func(i int) {
			c := docs[i]
			eval(&c)
			e.R.Trace(1)
			e.R.Transition(int64(s.n))
			if cliEvery > 0 && i%cliEvery == 0 {
				cc := docs[i]
				cc.Path = "cli"
				eval(&cc)
			}
		})
		e.R.NonTrivialN(int64(len(docs)))
		cli := "in-process"
		if cliEvery > 0 {
			cli = fmt.Sprintf("in-process, every %d-th also through the real binary", cliEvery)
		}
		_ = s
		e.R.AddPart(ev.Part{Name: fmt.Sprintf("long-documents-%d", s.n), Enumerated: longDescribe(s.n, s.pos, s.kinds) + "; " + cli, Executions: int64(len(docs)), Transitions: int64(len(docs) * s.n), Exhaustive: true})
	}
	// two deviations far apart (and next to each other): every ordered pair of kinds
	pairs := [][2]int{{40, 90}, {63, 64}, {3, 128}}
	if e.Thorough {
		pairs = append(pairs, [2]int{0, 129}, [2]int{100, 101}, [2]int{7, 8}, [2]int{64, 127})
	}
	docs := longPairs(130, pairs)
	mc.ParFor(len(docs), func(i int) {
		c := docs[i]
		eval(&c)
		e.R.Trace(1)
		e.R.Transition(130)
		if cliEvery > 0 && i%(4*cliEvery) == 0 {
			cc := docs[i]
			cc.Path = "cli"
			eval(&cc)
		}
	})
	e.R.NonTrivialN(int64(len(docs)))
	e.R.AddPart(ev.Part{Name: "long-documents-two-deviations", Enumerated: fmt.Sprintf("periodic documents of 130 instances with two deviations: every ordered pair of the %d kinds at position pairs %v", len(longKinds)-1, pairs), Executions: int64(len(docs)), Transitions: int64(len(docs) * 130), Exhaustive: true})
}

// wideChords writes a user dictionary with chords Wide<n> (display w<n>) of n tones of pairwise
// different size (so that no key is struck twice) and returns the file and the sizes available.
func wideChords(e *Env, m *refplay.Model) (file string, max int) {
	type at struct {
		name string
		size int
	}
	var ats []at
	seen := map[int]bool{}
	var names []string
	for n := range m.Dict.Attrs {
		names = append(names, n)
	}
	sort.Strings(names)
	for _, n := range names {
		sz := m.Dict.Attrs[n].MustSize()
		if sz < 0 || sz > 45 || seen[sz] {
			continue
		}
		seen[sz] = true
		ats = append(ats, at{n, sz})
	}
	sort.Slice(ats, func(i, j int) bool { return ats[i].size < ats[j].size })
	var b strings.Builder
	for n := 1; n <= len(ats); n++ {
		fmt.Fprintf(&b, "- name: Wide%d\n  meta:\n    display: w%d\n  attributes:\n", n, n)
		for _, a := range ats[:n] {
			fmt.Fprintf(&b, "    - %s\n", a.name)
		}
	}
	return writeTemp(e.Scratch, "wide-chords.yml", b.String()), len(ats)
}
