// Package rewrite generates, at check time and from the working tree, the instrumented
// variants of the repository that put its two sources of nondeterminism under the
// explorer's control: map iteration order (MapOrder) and goroutine scheduling (Sched).
// Nothing is written to the repository: the rewritten files and the run-time packages are
// handed to go build -overlay.
package rewrite

import (
	"bytes"
	_ "embed"
	"encoding/json"
	"fmt"
	"go/ast"
	"go/format"
	"go/token"
	"go/types"
	"os"
	"path/filepath"
	"sort"
	"strconv"
	"strings"

	"golang.org/x/tools/go/ast/astutil"
	"golang.org/x/tools/go/packages"
)

//go:embed assets/verifrt.go.txt
var verifrtSrc []byte

//go:embed assets/vsched.go.txt
var vschedSrc []byte

//go:embed assets/sched_driver.go.txt
var driverSrc []byte

//go:embed assets/sched_main_driver.go.txt
var mainDriverSrc []byte

const modPath = "github.com/berquerant/crd"

func load(repo string, patterns ...string) ([]*packages.Package, error) {
	cfg := &packages.Config{
		Mode: packages.NeedName | packages.NeedFiles | packages.NeedSyntax | packages.NeedTypes | packages.NeedTypesInfo | packages.NeedCompiledGoFiles,
		Dir:  repo,
		Env:  append(os.Environ(), "GOFLAGS=-mod=readonly", "GOPROXY=off"),
	}
	pkgs, err := packages.Load(cfg, patterns...)
	if err != nil {
		return nil, err
	}
	for _, p := range pkgs {
		if len(p.Errors) > 0 {
			return nil, fmt.Errorf("package %s: %v", p.PkgPath, p.Errors[0])
		}
	}
	return pkgs, nil
}

func writeOverlay(outDir string, repl map[string]string) (string, error) {
	b, _ := json.MarshalIndent(map[string]any{"Replace": repl}, "", " ")
	p := filepath.Join(outDir, "overlay.json")
	return p, os.WriteFile(p, b, 0o644)
}

// Site is one static place that iterates a map.
type Site struct {
	ID   string `json:"id"`   // file.go:line
	Kind string `json:"kind"` // range | maps.Keys | maps.Values
}

// MapOrder rewrites every range over a map and every maps.Keys/maps.Values call of all
// non-test packages to iterate verifrt.Order(site, m) instead.
func MapOrder(repo, outDir string) (overlay string, sites []Site, err error) {
	pkgs, err := load(repo, "./...")
	if err != nil {
		return "", nil, err
	}
	repl := map[string]string{}
	for _, p := range pkgs {
		for i, f := range p.Syntax {
			fname := p.CompiledGoFiles[i]
			if !strings.HasPrefix(fname, repo) {
				continue
			}
			rel, _ := filepath.Rel(repo, fname)
			changed := false
			astutil.Apply(f, func(c *astutil.Cursor) bool {
				switch x := c.Node().(type) {
				case *ast.RangeStmt:
					t := p.TypesInfo.TypeOf(x.X)
					if t == nil {
						return true
					}
					if _, ok := t.Underlying().(*types.Map); !ok {
						return true
					}
					id := fmt.Sprintf("%s:%d", rel, p.Fset.Position(x.Pos()).Line)
					sites = append(sites, Site{id, "range"})
					keyName := "_vk"
					if x.Key != nil {
						if kid, ok := x.Key.(*ast.Ident); ok && kid.Name != "_" {
							keyName = kid.Name
						} else if !ok {
							return true // exotic key expression: left alone (reported by the caller as unsupported)
						}
					}
					mexpr := x.X
					if x.Value != nil {
						if vid, ok := x.Value.(*ast.Ident); ok && vid.Name != "_" {
							assign := &ast.AssignStmt{Lhs: []ast.Expr{ast.NewIdent(vid.Name)}, Tok: token.DEFINE, Rhs: []ast.Expr{&ast.IndexExpr{X: mexpr, Index: ast.NewIdent(keyName)}}}
							use := &ast.AssignStmt{Lhs: []ast.Expr{ast.NewIdent("_")}, Tok: token.ASSIGN, Rhs: []ast.Expr{ast.NewIdent(vid.Name)}}
							x.Body.List = append([]ast.Stmt{assign, use}, x.Body.List...)
						}
					}
					x.Key = ast.NewIdent("_")
					x.Value = ast.NewIdent(keyName)
					if keyName == "_vk" {
						use := &ast.AssignStmt{Lhs: []ast.Expr{ast.NewIdent("_")}, Tok: token.ASSIGN, Rhs: []ast.Expr{ast.NewIdent("_vk")}}
						x.Body.List = append([]ast.Stmt{use}, x.Body.List...)
					}
					x.Tok = token.DEFINE
					x.X = &ast.CallExpr{Fun: &ast.SelectorExpr{X: ast.NewIdent("verifrt"), Sel: ast.NewIdent("Order")}, Args: []ast.Expr{&ast.BasicLit{Kind: token.STRING, Value: strconv.Quote(id)}, mexpr}}
					changed = true
				case *ast.CallExpr:
					if s, ok := x.Fun.(*ast.SelectorExpr); ok {
						if idn, ok := s.X.(*ast.Ident); ok && idn.Name == "maps" && (s.Sel.Name == "Keys" || s.Sel.Name == "Values") {
							if pn, ok := p.TypesInfo.Uses[idn].(*types.PkgName); !ok || pn.Imported().Path() != "maps" {
								return true
							}
							id := fmt.Sprintf("%s:%d", rel, p.Fset.Position(x.Pos()).Line)
							sites = append(sites, Site{id, "maps." + s.Sel.Name})
							x.Fun = &ast.SelectorExpr{X: ast.NewIdent("verifrt"), Sel: ast.NewIdent(s.Sel.Name)}
							x.Args = append([]ast.Expr{&ast.BasicLit{Kind: token.STRING, Value: strconv.Quote(id)}}, x.Args...)
							changed = true
						}
					}
				}
				return true
			}, nil)
			if changed {
				astutil.AddImport(p.Fset, f, modPath+"/verifrt")
				if !astutil.UsesImport(f, "maps") {
					astutil.DeleteImport(p.Fset, f, "maps")
				}
				var buf bytes.Buffer
				if err := format.Node(&buf, p.Fset, f); err != nil {
					return "", nil, err
				}
				dst := filepath.Join(outDir, fmt.Sprintf("mo%d_%s", len(repl), filepath.Base(fname)))
				if err := os.WriteFile(dst, buf.Bytes(), 0o644); err != nil {
					return "", nil, err
				}
				repl[fname] = dst
			}
		}
	}
	vrt := filepath.Join(outDir, "verifrt.go")
	if err := os.WriteFile(vrt, verifrtSrc, 0o644); err != nil {
		return "", nil, err
	}
	repl[filepath.Join(repo, "verifrt", "verifrt.go")] = vrt
	sort.Slice(sites, func(i, j int) bool { return sites[i].ID < sites[j].ID })
	overlay, err = writeOverlay(outDir, repl)
	return overlay, sites, err
}

// SchedResult describes the scheduler instrumentation.
type SchedResult struct {
	Overlay   string
	Rewritten []string // files rewritten
	Refused   []string // constructs the rewriter does not model (then no verdict from this part)
	Points    int      // static synchronisation sites rewritten
}

// Sched rewrites the goroutine/channel/sync constructs of the packages on the classifier's
// call path (input/ast, astconv) to the cooperative scheduler and adds the driver.
func Sched(repo, outDir string) (*SchedResult, error) { return sched(repo, outDir, false) }

// SchedMain does the same for package main (cmd) as well and adds a driver *inside* package
// main, so that goroutines on the whole `text conv` path are under the scheduler.
func SchedMain(repo, outDir string) (*SchedResult, error) { return sched(repo, outDir, true) }

func sched(repo, outDir string, withMain bool) (*SchedResult, error) {
	patterns := []string{"./input/ast", "./astconv"}
	if withMain {
		patterns = append(patterns, "./cmd", "./util", "./op", "./note", "./input", "./chord", "./play", "./midix", "./desc")
	}
	pkgs, err := load(repo, patterns...)
	if err != nil {
		return nil, err
	}
	res := &SchedResult{}
	repl := map[string]string{}
	for _, p := range pkgs {
		for i, f := range p.Syntax {
			fname := p.CompiledGoFiles[i]
			if !strings.HasPrefix(fname, repo) || strings.HasSuffix(fname, "_generated.go") {
				continue
			}
			rel, _ := filepath.Rel(repo, fname)
			changed := false
			refuse := func(n ast.Node, what string) {
				res.Refused = append(res.Refused, fmt.Sprintf("%s:%d: %s", rel, p.Fset.Position(n.Pos()).Line, what))
			}
			isChan := func(e ast.Expr) bool {
				t := p.TypesInfo.TypeOf(e)
				if t == nil {
					return false
				}
				_, ok := t.Underlying().(*types.Chan)
				return ok
			}
			vs := func(name string) ast.Expr {
				return &ast.SelectorExpr{X: ast.NewIdent("vsched"), Sel: ast.NewIdent(name)}
			}
			chanOf := func(elem ast.Expr) ast.Expr {
				return &ast.StarExpr{X: &ast.IndexExpr{X: vs("Chan"), Index: elem}}
			}
			method := func(recv ast.Expr, name string, args ...ast.Expr) *ast.CallExpr {
				return &ast.CallExpr{Fun: &ast.SelectorExpr{X: recv, Sel: ast.NewIdent(name)}, Args: args}
			}
			for _, imp := range f.Imports {
				switch strings.Trim(imp.Path.Value, `"`) {
				case "sync/atomic", "context":
					refuse(imp, "import "+imp.Path.Value+" is not modelled")
				}
			}
			astutil.Apply(f, func(c *astutil.Cursor) bool {
				switch x := c.Node().(type) {
				case *ast.CallExpr:
					if id, ok := x.Fun.(*ast.Ident); ok && id.Name == "make" && len(x.Args) >= 1 {
						if ct, ok := x.Args[0].(*ast.ChanType); ok {
							if ct.Dir != ast.SEND|ast.RECV {
								refuse(x, "directional channel")
							}
							size := ast.Expr(&ast.BasicLit{Kind: token.INT, Value: "0"})
							if len(x.Args) > 1 {
								size = x.Args[1]
							}
							c.Replace(&ast.CallExpr{Fun: &ast.IndexExpr{X: vs("NewChan"), Index: ct.Value}, Args: []ast.Expr{size}})
							changed = true
							res.Points++
							return false
						}
					}
					if id, ok := x.Fun.(*ast.Ident); ok && id.Name == "close" && len(x.Args) == 1 && isChan(x.Args[0]) {
						c.Replace(method(x.Args[0], "Close"))
						changed = true
						res.Points++
						return false
					}
					if s, ok := x.Fun.(*ast.SelectorExpr); ok && withMain && p.Name == "main" {
						// os.Exit in package main ends one controlled execution, not the explorer
						if id, ok := s.X.(*ast.Ident); ok && id.Name == "os" && s.Sel.Name == "Exit" {
							x.Fun = ast.NewIdent("verifExit")
							changed = true
						}
					}
					if s, ok := x.Fun.(*ast.SelectorExpr); ok {
						if id, ok := s.X.(*ast.Ident); ok && id.Name == "time" {
							switch s.Sel.Name {
							case "After", "Tick", "NewTimer", "NewTicker", "Sleep", "AfterFunc":
								refuse(x, "time."+s.Sel.Name)
							}
						}
					}
				}
				return true
			}, func(c *astutil.Cursor) bool {
				switch x := c.Node().(type) {
				case *ast.ChanType:
					c.Replace(chanOf(x.Value))
					changed = true
				case *ast.GoStmt:
					var fn ast.Expr
					if fl, ok := x.Call.Fun.(*ast.FuncLit); ok && len(x.Call.Args) == 0 {
						fn = fl
					} else {
						fn = &ast.FuncLit{Type: &ast.FuncType{Params: &ast.FieldList{}}, Body: &ast.BlockStmt{List: []ast.Stmt{&ast.ExprStmt{X: x.Call}}}}
					}
					c.Replace(&ast.ExprStmt{X: &ast.CallExpr{Fun: vs("Go"), Args: []ast.Expr{fn}}})
					changed = true
					res.Points++
				case *ast.SendStmt:
					c.Replace(&ast.ExprStmt{X: method(x.Chan, "Send", x.Value)})
					changed = true
					res.Points++
				case *ast.AssignStmt:
					if len(x.Lhs) == 2 && len(x.Rhs) == 1 {
						if u, ok := x.Rhs[0].(*ast.CallExpr); ok {
							if s, ok := u.Fun.(*ast.SelectorExpr); ok && s.Sel.Name == "Recv1" {
								s.Sel.Name = "Recv"
							}
						}
					}
				case *ast.UnaryExpr:
					if x.Op == token.ARROW {
						c.Replace(method(x.X, "Recv1"))
						changed = true
						res.Points++
					}
				case *ast.RangeStmt:
					if isChan(x.X) {
						ok := ast.NewIdent("_vok")
						var lhs ast.Expr = ast.NewIdent("_")
						if x.Key != nil {
							lhs = x.Key
						}
						recv := &ast.AssignStmt{Lhs: []ast.Expr{lhs, ok}, Tok: token.DEFINE, Rhs: []ast.Expr{method(x.X, "Recv")}}
						brk := &ast.IfStmt{Cond: &ast.UnaryExpr{Op: token.NOT, X: ok}, Body: &ast.BlockStmt{List: []ast.Stmt{&ast.BranchStmt{Tok: token.BREAK}}}}
						body := append([]ast.Stmt{recv, brk}, x.Body.List...)
						c.Replace(&ast.ForStmt{Body: &ast.BlockStmt{List: body}})
						changed = true
						res.Points++
					}
				case *ast.SelectStmt:
					// children are rewritten already: every comm statement is now c.Send(v), c.Recv1(), x := c.Recv1() or x, ok := c.Recv()
					var cases []ast.Expr
					var clauses []ast.Stmt
					hasDefault := false
					okAll := true
					for _, st := range x.Body.List {
						cc := st.(*ast.CommClause)
						if cc.Comm == nil {
							hasDefault = true
							clauses = append(clauses, &ast.CaseClause{Body: cc.Body})
							continue
						}
						var call *ast.CallExpr
						switch cm := cc.Comm.(type) {
						case *ast.ExprStmt:
							call, _ = cm.X.(*ast.CallExpr)
						case *ast.AssignStmt:
							if len(cm.Rhs) == 1 {
								call, _ = cm.Rhs[0].(*ast.CallExpr)
							}
						}
						var sel *ast.SelectorExpr
						if call != nil {
							sel, _ = call.Fun.(*ast.SelectorExpr)
						}
						if sel == nil {
							okAll = false
							break
						}
						switch sel.Sel.Name {
						case "Send":
							cases = append(cases, method(sel.X, "SendCase"))
							sel.Sel = ast.NewIdent("SendNow")
						case "Recv1":
							cases = append(cases, method(sel.X, "RecvCase"))
							sel.Sel = ast.NewIdent("RecvNow1")
						case "Recv":
							cases = append(cases, method(sel.X, "RecvCase"))
							sel.Sel = ast.NewIdent("RecvNow")
						default:
							okAll = false
						}
						idx := &ast.BasicLit{Kind: token.INT, Value: strconv.Itoa(len(cases) - 1)}
						clauses = append(clauses, &ast.CaseClause{List: []ast.Expr{idx}, Body: append([]ast.Stmt{cc.Comm}, cc.Body...)})
					}
					if !okAll {
						refuse(x, "select statement with a communication the rewriter does not know")
						return true
					}
					hd := "false"
					if hasDefault {
						hd = "true"
					}
					args := append([]ast.Expr{ast.NewIdent(hd)}, cases...)
					c.Replace(&ast.SwitchStmt{Tag: &ast.CallExpr{Fun: vs("Select"), Args: args}, Body: &ast.BlockStmt{List: clauses}})
					changed = true
					res.Points++
				case *ast.SelectorExpr:
					if id, ok := x.X.(*ast.Ident); ok && id.Name == "sync" {
						if pn, ok := p.TypesInfo.Uses[id].(*types.PkgName); ok && pn.Imported().Path() == "sync" {
							switch x.Sel.Name {
							case "Mutex", "WaitGroup", "Once":
								c.Replace(vs(x.Sel.Name))
								changed = true
								res.Points++
							default:
								refuse(x, "sync."+x.Sel.Name)
							}
						}
					}
				}
				return true
			})
			if changed {
				astutil.AddImport(p.Fset, f, modPath+"/vsched")
				for _, imp := range []string{"sync", "os", modPath + "/vsched"} {
					if !astutil.UsesImport(f, imp) {
						astutil.DeleteImport(p.Fset, f, imp)
					}
				}
				var buf bytes.Buffer
				if err := format.Node(&buf, p.Fset, f); err != nil {
					return nil, err
				}
				dst := filepath.Join(outDir, fmt.Sprintf("sc%d_%s", len(repl), filepath.Base(fname)))
				if err := os.WriteFile(dst, buf.Bytes(), 0o644); err != nil {
					return nil, err
				}
				repl[fname] = dst
				res.Rewritten = append(res.Rewritten, rel)
			}
		}
	}
	vsf := filepath.Join(outDir, "vsched.go")
	if err := os.WriteFile(vsf, vschedSrc, 0o644); err != nil {
		return nil, err
	}
	repl[filepath.Join(repo, "vsched", "vsched.go")] = vsf
	if withMain {
		drv := filepath.Join(outDir, "sched_main_driver.go")
		if err := os.WriteFile(drv, mainDriverSrc, 0o644); err != nil {
			return nil, err
		}
		repl[filepath.Join(repo, "cmd", "zz_verif_sched_main.go")] = drv
	} else {
		drv := filepath.Join(outDir, "sched_driver.go")
		if err := os.WriteFile(drv, driverSrc, 0o644); err != nil {
			return nil, err
		}
		repl[filepath.Join(repo, "zz_verif_sched", "main.go")] = drv
	}
	res.Overlay, err = writeOverlay(outDir, repl)
	return res, err
}
