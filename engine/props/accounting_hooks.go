//go:build verif

package props

import (
	"encoding/json"
	"fmt"
	"math/big"
	"strings"

	"github.com/berquerant/crd/midix"

	"verif/ev"
	"verif/mc"
)

// Explicit-state accounting on the real midix.MIDIWriter through the VerifState hook.
// State = (writer pending delta, per-track pending delays); one transition per writer call.

type wop struct {
	Kind  string `json:"kind"` // note | rest | tempo | text
	Num   int64  `json:"num"`
	Den   int64  `json:"den"`
	NKeys int    `json:"nkeys,omitempty"`
}

func (o wop) String() string {
	switch o.Kind {
	case "note":
		return fmt.Sprintf("Note(%d/%d,%d keys)", o.Num, o.Den, o.NKeys)
	case "rest":
		return fmt.Sprintf("Rest(%d/%d)", o.Num, o.Den)
	}
	return o.Kind
}

var wopAlphabet = []wop{
	{Kind: "note", Num: 1, Den: 1, NKeys: 1},
	{Kind: "note", Num: 1, Den: 3, NKeys: 3},
	{Kind: "note", Num: 1, Den: 2, NKeys: 5},
	{Kind: "rest", Num: 1, Den: 1},
	{Kind: "rest", Num: 1, Den: 3},
	{Kind: "tempo"},
	{Kind: "text"},
}

func wopTicks(o wop) int64 {
	if o.Kind != "note" && o.Kind != "rest" {
		return 0
	}
	x := new(big.Rat).Mul(big.NewRat(o.Num, o.Den), big.NewRat(960, 1))
	fl := new(big.Int).Quo(x.Num(), x.Denom()).Int64()
	if new(big.Rat).Sub(x, big.NewRat(fl, 1)).Cmp(big.NewRat(1, 2)) >= 0 {
		return fl + 1
	}
	return fl
}

func applyWop(w *midix.MIDIWriter, o wop) {
	switch o.Kind {
	case "note":
		keys := make([]uint8, o.NKeys)
		for i := range keys {
			keys[i] = uint8(60 + 3*i)
		}
		_ = w.Note(float64(o.Num)/float64(o.Den), 64, keys...)
	case "rest":
		w.Rest(float64(o.Num) / float64(o.Den))
	case "tempo":
		w.Tempo(120)
	case "text":
		w.Text("x")
	}
}

type wopsCase struct {
	Tracks int   `json:"tracks"`
	Ops    []wop `json:"ops"`
	Close  bool  `json:"close"`
}

// accountingRun replays ops on a fresh writer, checking the clock invariant after every
// call; returns the canonical state key.
func accountingRun(e *Env, prop string, c wopsCase, report bool) (string, bool) {
	set, err := midix.NewTrackSetControllerFromTrackNum(c.Tracks)
	if err != nil {
		panic(err)
	}
	w := midix.NewWriter(960, set, "Piano", 0)
	var clock int64
	fail := func(class, msg string) (string, bool) {
		if report {
			e.R.Fail(ev.Fail{Class: class, Msg: msg, Kind: "writer-ops", Case: c})
		}
		return "", false
	}
	check := func(step int, closed bool) (string, bool) {
		s := w.VerifState()
		for ti, t := range s.Tracks {
			var sum int64
			for _, d := range t.Deltas {
				sum += int64(d)
			}
			have := sum + int64(t.Pending) + int64(s.Pending)
			if closed {
				// after Close every track must stand exactly at the total duration
				have = sum
				if len(t.Kinds) == 0 || !strings.HasSuffix(t.Kinds[len(t.Kinds)-1], "Close") {
					return fail(prop+"/accounting/no-close", fmt.Sprintf("track %d of %d has no end-of-track after Close; ops %v", ti, c.Tracks, c.Ops))
				}
			}
			if have != clock {
				cl := prop + "/accounting/clock"
				if closed {
					cl = prop + "/accounting/close-clock"
					if c.Tracks > 1 {
						cl += "/multi-track"
					}
				}
				return fail(cl, fmt.Sprintf("after %d call(s) of %v on %d track(s)%s: track %d stands at %d ticks (ops %d + pending %d + writer pending %d), the global clock at %d",
					step, c.Ops, c.Tracks, map[bool]string{true: " and Close", false: ""}[closed], ti, have, sum, t.Pending, s.Pending, clock))
			}
		}
		var b strings.Builder
		fmt.Fprintf(&b, "%d|", s.Pending)
		for _, t := range s.Tracks {
			fmt.Fprintf(&b, "%d,", t.Pending)
		}
		return b.String(), true
	}
	key := ""
	for i, o := range c.Ops {
		applyWop(w, o)
		clock += wopTicks(o)
		k, ok := check(i+1, false)
		if !ok {
			return "", false
		}
		key = k
	}
	if c.Close {
		w.Close()
		if _, ok := check(len(c.Ops), true); !ok {
			return "", false
		}
	}
	return key, true
}

func writerAccounting(e *Env, prop string, withClose bool, tracks []int, depth int) {
	for _, n := range tracks {
		res := mc.BFS(fmt.Sprintf("0|%s", strings.Repeat("0,", n)), len(wopAlphabet), depth, func(path []int, op int) (string, bool) {
			c := wopsCase{Tracks: n, Close: withClose}
			for _, p := range append(append([]int{}, path...), op) {
				c.Ops = append(c.Ops, wopAlphabet[p])
			}
			k, ok := accountingRun(e, prop, c, false)
			e.R.Eval(1)
			e.R.Transition(1)
			if !ok {
				accountingRun(e, prop, c, true)
				return "", false
			}
			e.R.State(fmt.Sprintf("N%d:%s", n, k))
			return k, true
		})
		e.R.AddPart(ev.Part{Name: fmt.Sprintf("writer-accounting-N%d", n), Enumerated: fmt.Sprintf("explicit-state: state = (writer pending, %d per-track pending delays) read through the VerifState hook; 7 writer calls {Note x3, Rest x2, Tempo, Text}; BFS with state hashing to depth %d; invariant in every state: ops + pending + writer pending = global clock on every track%s", n, depth, map[bool]string{true: "; after Close every track stands at the total", false: ""}[withClose]), Executions: int64(res.Transitions), States: int64(res.States), Transitions: int64(res.Transitions), Exhaustive: false, Note: "depth-capped (the pending values grow without bound, no fixpoint); soundness of hashing: Track.Add reads only the pending delay and ops are append-only, so equal vectors have equal futures up to translation"})
	}
}

func c02Accounting(e *Env) {
	writerAccounting(e, "C02", false, []int{1, 3}, map[bool]int{true: 6, false: 5}[e.Thorough])
}

func c02ReplayOps(e *Env, raw json.RawMessage) {
	accountingRun(e, e.R.Prop, decode[wopsCase](raw), true)
}
