#!/bin/bash
# tools/revertfixes.sh: for each fix: commit of /repo, undo it alone on top of HEAD in a lane (tools/mklane.sh)
# and run the quick check(s) of its property; results in /var/tmp/reverts.log (exit status 1 = reported again).
export GOFLAGS=-mod=mod GOPROXY=off
LOG=/var/tmp/reverts.log; : > $LOG
# the list "<commit>|<properties>|<subject>": fix: commits of /repo with the properties known_findings.json records for them
python3 - <<'PY' > /var/tmp/fixes.txt
import json,subprocess
k=json.load(open('/verif/known_findings.json'))
by={}
for f in k['findings']:
    if f['status']=='fixed': by.setdefault(f['commit'],set()).add(f['property'])
for l in subprocess.run(['git','-C','/repo','log','--format=%h %s'],capture_output=True,text=True).stdout.strip().split('\n'):
    h,subj=l.split(' ',1)
    if not subj.startswith('fix:'): continue
    props=set()
    for c,p in by.items():
        if h.startswith(c) or c.startswith(h): props|=p
    print(f"{h}|{' '.join(sorted(props))}|{subj}")
PY
lane() {
  i=$1; L=/var/tmp/lane-r$i; /verif/tools/mklane.sh r$i >/dev/null
  R=$L/repo; V=$L/verif
  awk "NR % 3 == $i" /var/tmp/fixes.txt | while IFS='|' read h props subj; do
    cd $R; git checkout -q -- .; git clean -fdq
    if ! git show $h | git apply -R --3way >/dev/null 2>&1; then
      if [ -n "$(git status --short | grep '^UU')" ]; then echo "$h CONFLICT (later fixes changed the same lines) :: $subj" >> $LOG; git reset -q --hard; continue; fi
    fi
    git reset -q 2>/dev/null
    if ! go build ./... >/dev/null 2>&1; then echo "$h NOBUILD :: $subj" >> $LOG; git checkout -q -- .; continue; fi
    T=pass; go test -vet=off -count=1 ./... >/dev/null 2>&1 || T=fail
    res=""
    for c in $props; do
      (cd $V && VERIF_REPO=$R timeout 1500 ./check $c quick > $L/$h.$c.log 2>&1); rc=$?
      res="$res $c=$rc"
    done
    echo "$h tests=$T$res :: $subj" >> $LOG
    git checkout -q -- .; git clean -fdq
  done
  [ -c /dev/full ] || { rm -f /dev/full; mknod -m 666 /dev/full c 1 7; }
  cd /; git -C /repo worktree remove --force $R; rm -rf $L
}
for i in 0 1 2; do lane $i & done; wait; echo DONE >> $LOG
