#!/bin/bash
# tools/seedlanes.sh [lanes=4] [pattern=* | file with seed ids]
# Re-runs every kept seeded change against the quick tier of its target check(s), in parallel lanes.
# Each lane has its own git worktree of /repo and its own copy of /verif whose engine module
# points at that worktree, so /repo and /verif themselves are not touched. Results:
# /var/tmp/lanes/results.txt, one line per seed (DETECTED / MISSED / NOAPPLY / BROKEN).
set -u
guard_dev() { [ -c /dev/full ] || { rm -f /dev/full; mknod -m 666 /dev/full c 1 7 && echo "note: /dev/full restored" >&2; }; }
N=${1:-4}; PAT=${2:-*}
export GOFLAGS=-mod=mod GOPROXY=off
L=/var/tmp/lanes; rm -rf $L; mkdir -p $L
if [ -f "$PAT" ]; then sed 's|^|/verif/seeded/|' "$PAT" > $L/all.txt   # a file with one seed id per line
else ls -d /verif/seeded/$PAT | sort > $L/all.txt; fi
for i in $(seq 1 $N); do
  mkdir -p $L/$i
  git -C /repo worktree add -q --detach $L/$i/repo HEAD
  rsync -a --exclude .git --exclude replay --exclude seeded --exclude benign /verif/ $L/$i/verif/
  sed -i "s|=> /repo|=> $L/$i/repo|" $L/$i/verif/engine/go.mod
  awk "NR % $N == $i % $N" $L/all.txt > $L/$i/todo.txt
done
lane() {
  i=$1; R=$L/$i/repo; V=$L/$i/verif
  (cd $R && go build -o $L/$i/crd-clean ./cmd)
  while read d; do
    id=$(basename $d)
    props=$(python3 - "$d" <<'PY'
import json,sys,re
m=json.load(open(sys.argv[1]+'/meta.json'))
# the checks that reported it when it was recorded (exit 1), else the target
r=re.findall(r'(C\d\d)=1',m.get('check_results_quick',''))
print(' '.join(r) if r else m['breaks_property'])
PY
)
    cd $R; git checkout -q -- . ; git clean -fdq
    if git apply --check $d/patch.diff 2>/dev/null; then git apply $d/patch.diff
    elif patch -p1 --dry-run -F3 -s < $d/patch.diff >/dev/null 2>&1; then patch -p1 -F3 -s -i $d/patch.diff; find . -name '*.orig' -delete
    else echo "$id NOAPPLY" >> $L/results.txt; continue; fi
    if ! go build ./... >/dev/null 2>&1 || ! go test -vet=off -count=1 ./... >/dev/null 2>&1; then echo "$id BROKEN (no longer builds or passes the tests on this HEAD)" >> $L/results.txt; continue; fi
    res=""; hit=0
    for c in $props; do
      (cd $V && VERIF_REPO=$R timeout 1500 ./check $c quick > $L/$i/$id.$c.log 2>&1); rc=$?
      res="$res $c=$rc"; [ $rc = 1 ] && hit=1 && break
    done
    guard_dev
    if [ $hit = 1 ]; then echo "$id DETECTED$res" >> $L/results.txt; rm -f $L/$i/$id.*.log; else echo "$id MISSED$res" >> $L/results.txt; fi
  done < $L/$i/todo.txt
  cd /; git -C $R checkout -q -- . ; git -C /repo worktree remove --force $R
}
for i in $(seq 1 $N); do lane $i & done
wait
sort $L/results.txt > $L/results.sorted.txt
echo "done: $(grep -c DETECTED $L/results.txt) detected, $(grep -c MISSED $L/results.txt) missed, $(grep -c NOAPPLY $L/results.txt) do not apply, $(grep -c BROKEN $L/results.txt) broken"
