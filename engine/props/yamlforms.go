package props

import (
	"bytes"
	"fmt"
	"sort"
	"strings"

	"verif/ev"
	"verif/mc"
	refplay "verif/ref/play"
)

// YAML spellings of one instances document. `crd write` reads YAML: whatever YAML feature a
// hand-written (or jq-/editor-produced) piece uses, it is the same piece. Every variant must give
// the bytes of the plain spelling; which property's words that is depends on who calls.

type yamlVariant struct {
	Name string `json:"name"`
	Doc  string `json:"document"`
}

type yamlFormCase struct {
	Prop    string      `json:"property"`
	Variant yamlVariant `json:"variant"`
	Plain   string      `json:"plain"`
	Cfg     writeCfg    `json:"cfg"`
	Path    string      `json:"path"`
}

func flowInst(in refplay.Inst) string {
	var f []string
	if c := in.Chord; c != nil {
		s := fmt.Sprintf("\"chord\": {\"degree\": %q, \"name\": %q", c.Degree.Notation(), c.Symbol)
		if c.Bass != nil {
			s += fmt.Sprintf(", \"base\": %q", c.Bass.Notation())
		}
		f = append(f, s+"}")
	}
	var vs []string
	for _, v := range in.Values {
		vs = append(vs, fmt.Sprintf("%q", v.String()))
	}
	f = append(f, "\"values\": ["+strings.Join(vs, ", ")+"]")
	if in.BPM != nil {
		f = append(f, fmt.Sprintf("\"bpm\": %d", *in.BPM))
	}
	if in.Vel != nil {
		f = append(f, fmt.Sprintf("\"velocity\": %q", *in.Vel))
	}
	if in.Meter != nil {
		f = append(f, fmt.Sprintf("\"meter\": %q", in.Meter.String()))
	}
	if in.Key != nil {
		f = append(f, fmt.Sprintf("\"key\": %q", *in.Key))
	}
	if in.Meta != nil {
		var ks []string
		for k := range in.Meta {
			ks = append(ks, k)
		}
		sort.Strings(ks)
		var ms []string
		for _, k := range ks {
			ms = append(ms, fmt.Sprintf("%q: %q", k, in.Meta[k]))
		}
		f = append(f, "\"meta\": {"+strings.Join(ms, ", ")+"}")
	}
	return "{" + strings.Join(f, ", ") + "}"
}

// yamlVariants lists the spellings of insts.
func yamlVariants(insts []refplay.Inst) []yamlVariant {
	plain := refplay.YAML(insts)
	var flow []string
	for _, in := range insts {
		flow = append(flow, flowInst(in))
	}
	// repeated instances as aliases of their first occurrence
	var al strings.Builder
	seen := map[string]int{}
	for _, in := range insts {
		one := refplay.YAML([]refplay.Inst{in})
		if n, ok := seen[one]; ok {
			fmt.Fprintf(&al, "- *i%d\n", n)
			continue
		}
		n := len(seen)
		seen[one] = n
		fmt.Fprintf(&al, "- &i%d\n  %s", n, strings.TrimPrefix(one, "- "))
	}
	// every instance after the first merges the first and overrides what differs (only where all have the same field set is this the same piece: used on value-only documents)
	return []yamlVariant{
		{"repeated-instances-as-aliases", al.String()},
		{"one-line-flow-style", "[" + strings.Join(flow, ", ") + "]\n"},
		{"flow-style-one-instance-per-line", "[\n" + strings.Join(flow, ",\n") + "\n]\n"},
		{"block-list-of-flow-mappings", "- " + strings.Join(flow, "\n- ") + "\n"},
		{"leading-comment-and-document-markers", "# written by hand\n---\n" + plain + "...\n"},
		{"comment-after-every-line", strings.ReplaceAll(plain, "\n", " # c\n")},
		{"byte-order-mark", "\xef\xbb\xbf" + plain},
		{"crlf-line-ends", strings.ReplaceAll(plain, "\n", "\r\n")},
		{"yaml-directive", "%YAML 1.1\n---\n" + plain},
		{"no-final-newline", strings.TrimSuffix(plain, "\n")},
		{"blank-lines-between-instances", strings.ReplaceAll(plain, "\n- ", "\n\n\n- ")},
		{"deeper-indentation", deeper(plain)},
	}
}

// deeper re-indents a block-style document: items at column 4, their children at column 8.
func deeper(plain string) string {
	var b strings.Builder
	for _, l := range strings.SplitAfter(plain, "\n") {
		switch {
		case strings.HasPrefix(l, "- "):
			b.WriteString("-   " + l[2:])
		case strings.HasPrefix(l, "    "):
			b.WriteString("        " + l[4:])
		case strings.HasPrefix(l, "  "):
			b.WriteString("    " + l[2:])
		default:
			b.WriteString(l)
		}
	}
	return b.String()
}

func yamlFormEval(e *Env, c yamlFormCase) {
	e.R.Eval(1)
	a := runWrite(c.Path, c.Variant.Doc, c.Cfg)
	b := runWrite(c.Path, c.Plain, c.Cfg)
	if a.Err != "" || b.Err != "" || !bytes.Equal(a.Bytes, b.Bytes) {
		what := "the files differ"
		if a.Err != "" || b.Err != "" {
			what = fmt.Sprintf("errors: with the feature %q, plain %q", a.Err, b.Err)
		}
		e.R.Fail(ev.Fail{Class: c.Prop + "/yaml-spelling/" + c.Variant.Name, Msg: fmt.Sprintf("(%s, flags %v) the piece written with %s is not read as its plain spelling: %s\n--- with the feature ---\n%s", c.Path, c.Cfg.args(), c.Variant.Name, what, trunc(c.Variant.Doc, 600)), Kind: "yaml-form", Case: c})
		return
	}
	e.R.Outcome(c.Variant.Name)
}

// runYAMLForms: three pieces (all settings; the periodic long piece; 1500 instances: a one-line
// document of more than 64 kB) x every spelling x {in-process, real binary}.
func runYAMLForms(e *Env, prop string) {
	short := []refplay.Inst{
		c07Inst(0, false, [7]bool{true, true, true, true, true, true, true}),
		{Values: one()},
		c07Inst(0, false, [7]bool{true, true, true, true, true, true, true}),
		c07Inst(2, true, [7]bool{false, true, false, true, false, false, true}),
		{Chord: &refplay.Chord{Degree: iv("b3"), Symbol: "m7b5", Bass: ivp("b7")}, Values: one()},
		{Values: one()},
	}
	var long130, long1100 []refplay.Inst
	for i := 0; i < 1500; i++ {
		in := longBase(i)
		if i == 77 {
			in = longDeviate(in, "key")
		}
		if i < 130 {
			long130 = append(long130, in)
		}
		long1100 = append(long1100, in)
	}
	var cases []yamlFormCase
	for di, doc := range [][]refplay.Inst{short, long130, long1100} {
		plain := refplay.YAML(doc)
		for _, v := range yamlVariants(doc) {
			for _, path := range []string{"lib", "cli"} {
				for _, n := range []int{1, 3} {
					if di == 2 && (path == "lib" || n == 3) && !e.Thorough {
						continue
					}
					cases = append(cases, yamlFormCase{Prop: prop, Variant: v, Plain: plain, Cfg: writeCfg{Tracks: n}, Path: path})
				}
			}
		}
	}
	mc.ParFor(len(cases), func(i int) {
		yamlFormEval(e, cases[i])
		e.R.Trace(1)
	})
	e.R.NonTrivialN(int64(len(cases)))
	e.R.AddPart(ev.Part{Name: "yaml-spellings-of-a-piece", Enumerated: fmt.Sprintf("3 pieces (6 instances with every setting; 130 periodic instances; 1500 instances = a one-line document of 85 kB) x 12 YAML spellings (repeated instances as aliases, one-line flow/JSON style, flow per line, block list of flow mappings, comments, document markers, YAML directive, byte-order mark, CR LF, no final newline, blank lines, deeper indentation) x {in-process, real binary} x --track {1,3}: the file of the plain spelling (%d runs)", len(cases)), Executions: int64(len(cases)), Exhaustive: true})
}
