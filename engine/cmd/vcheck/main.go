// vcheck runs one property check against /repo (linked in through the replace
// directive) and the crd binary built from the same working tree.
package main

import (
	"encoding/json"
	"flag"
	"fmt"
	"os"
	"runtime/debug"
	"strconv"

	"verif/cli"
	"verif/ev"
	"verif/props"
)

func main() {
	var (
		prop    = flag.String("prop", "", "property id")
		tier    = flag.String("tier", "quick", "quick|thorough")
		crd     = flag.String("crd", "", "crd binary built from the working tree")
		scratch = flag.String("scratch", "", "scratch directory")
		verif   = flag.String("verif", "/verif", "verif directory")
		repo    = flag.String("repo", "/repo", "repository directory")
		replay  = flag.String("replay", "", "replay file")
	)
	flag.Parse()
	debug.SetGCPercent(800)
	p := props.Get(*prop)
	if p == nil {
		fmt.Fprintf(os.Stderr, "unknown property %q; have %v\n", *prop, props.IDs())
		os.Exit(2)
	}
	seed, _ := strconv.Atoi(os.Getenv("VERIF_SEED"))
	cli.Bin = *crd
	cli.Scratch = *scratch
	r := ev.New(*prop, *tier, seed, *verif)
	e := &props.Env{R: r, Thorough: *tier == "thorough", Seed: seed, VerifDir: *verif, RepoDir: *repo, Scratch: *scratch}

	if *replay != "" {
		b, err := os.ReadFile(*replay)
		if err != nil {
			fmt.Fprintln(os.Stderr, err)
			os.Exit(2)
		}
		var f struct {
			Kind string          `json:"kind"`
			Case json.RawMessage `json:"case"`
		}
		if err := json.Unmarshal(b, &f); err != nil {
			fmt.Fprintln(os.Stderr, err)
			os.Exit(2)
		}
		fn := p.Replay[f.Kind]
		if fn == nil {
			fmt.Fprintf(os.Stderr, "property %s has no replay for case kind %q\n", *prop, f.Kind)
			os.Exit(2)
		}
		fn(e, f.Case)
		if r.FailCount() == 0 {
			fmt.Println("replay: the case does not fail on this tree")
			os.Exit(0)
		}
		os.Exit(r.FinishReplay())
	}

	defer func() {
		if x := recover(); x != nil {
			if r.FailCount() > 0 {
				// verdicts were reached before something gave way (usually because the tree under test
				// is broken in a way the harness did not expect): they stand, and are reported
				fmt.Fprintf(os.Stderr, "harness: stopped early after recording %d failing cases: %v\n", r.FailCount(), firstLineOf(fmt.Sprint(x)))
				r.NotExhaustive("the run stopped early: " + firstLineOf(fmt.Sprint(x)))
				os.Exit(r.Finish())
			}
			fmt.Fprintf(os.Stderr, "harness error (no verdict): %v\n", x)
			panic(x)
		}
	}()
	p.Run(e)
	os.Exit(r.Finish())
}

func firstLineOf(s string) string {
	for i, c := range s {
		if c == '\n' {
			return s[:i]
		}
	}
	return s
}
