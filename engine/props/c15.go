package props

import (
	"encoding/json"
	"fmt"
	"path/filepath"
	"strings"

	"github.com/berquerant/crd/note"
	"gopkg.in/yaml.v3"

	"verif/cli"
	"verif/ev"
	"verif/mc"
	"verif/ref/dict"
	"verif/ref/theory"
)

// C15 — every interval name has its textbook size and prints and parses back.

type c15Interval struct {
	Num int    `json:"num"`
	Q   string `json:"quality"`
}

type c15Describe struct {
	Kind   string `json:"kind"` // attr | chord
	Target string `json:"target"`
	Root   string `json:"root"`
	Sharp  bool   `json:"sharp"`
}

func init() {
	register(&Prop{ID: "C15", Run: runC15, Replay: map[string]func(*Env, json.RawMessage){
		"gen-attr": func(e *Env, raw json.RawMessage) { c15GenAttr1(e, decode[int](raw)) },
		"interval": func(e *Env, raw json.RawMessage) {
			c := decode[c15Interval](raw)
			for _, q := range theory.AllQualities {
				if q.String() == c.Q {
					c15Interval1(e, theory.Interval{Num: c.Num, Q: q})
				}
			}
		},
		"notation": func(e *Env, raw json.RawMessage) { c15Notation(e, decode[string](raw)) },
		"describe": func(e *Env, raw json.RawMessage) {
			d, err := refDict(e.RepoDir, nil, nil)
			if err != nil {
				panic(err)
			}
			c15DescribeEval(e, d, decode[c15Describe](raw))
		},
	}})
}

func refOfImpl(d note.Degree) (theory.Interval, bool) {
	for q, n := range implQuality {
		if n == d.Name {
			return theory.Interval{Num: int(d.Value), Q: q}, true
		}
	}
	return theory.Interval{}, false
}

func c15Interval1(e *Env, i theory.Interval) {
	e.R.Eval(1)
	c := c15Interval{i.Num, i.Q.String()}
	fail := func(class, msg string) {
		e.R.Fail(ev.Fail{Class: class, Msg: fmt.Sprintf("%s: %s", i, msg), Kind: "interval", Case: c})
	}
	defer func() {
		if r := recover(); r != nil {
			fail("C15/panic", fmt.Sprint("panic: ", r))
		}
	}()
	d, ok := note.NewDegree(uint(i.Num), implQuality[i.Q])
	want, exists := i.Size()
	if ok != exists {
		if ok {
			fail("C15/impossible-accepted", "theory has no such interval but it is accepted")
		} else {
			fail("C15/existing-refused", "the interval exists but is refused")
		}
		return
	}
	if !exists {
		e.R.Outcome("rejected")
		return
	}
	got, ok2 := d.Semitone()
	if !ok2 || int(got) != want {
		fail("C15/size", fmt.Sprintf("measures %d semitones (ok=%v), theory says %d", got, ok2, want))
		return
	}
	s := d.String()
	if s != i.Notation() {
		fail("C15/notation-printed", fmt.Sprintf("prints as %q, documented notation is %q", s, i.Notation()))
		return
	}
	back, err := note.ParseDegree(s)
	if err != nil || back != d {
		fail("C15/print-parse", fmt.Sprintf("prints as %q which reads back as %v (err %v)", s, back, err))
		return
	}
	e.R.Outcome(fmt.Sprint(i, want))
}

func c15Notation(e *Env, s string) {
	e.R.Eval(1)
	fail := func(class, msg string) {
		e.R.Fail(ev.Fail{Class: class, Msg: fmt.Sprintf("notation %q: %s", s, msg), Kind: "notation", Case: s})
	}
	defer func() {
		if r := recover(); r != nil {
			fail("C15/panic", fmt.Sprint("panic: ", r))
		}
	}()
	d, err := note.ParseDegree(s)
	ref, refOK := theory.ParseNotation(s)
	canonical := refOK && ref.Exists() && !strings.HasSuffix(s, "b") && !strings.HasSuffix(s, "#")
	if err != nil {
		if canonical {
			fail("C15/canonical-notation-refused", fmt.Sprintf("a documented spelling of %s is refused: %v", ref, err))
		}
		e.R.Outcome("rejected")
		return
	}
	ri, known := refOfImpl(d)
	if !known || !ri.Exists() {
		fail("C15/parse-yields-impossible", fmt.Sprintf("parses to %+v which is no interval", d))
		return
	}
	if canonical && ri != ref {
		fail("C15/notation-misread", fmt.Sprintf("read as %s, the documented notation means %s", ri, ref))
		return
	}
	size, ok := d.Semitone()
	if !ok || int(size) != ri.MustSize() {
		fail("C15/size", fmt.Sprintf("%s measures %d, theory says %d", ri, size, ri.MustSize()))
		return
	}
	back, err := note.ParseDegree(d.String())
	if err != nil || back != d {
		fail("C15/print-parse", fmt.Sprintf("parses to %s, which prints as %q, which reads back as %v (err %v)", ri, d.String(), back, err))
		return
	}
	e.R.NonTrivial("n:" + s)
}

type yAttrInfo struct {
	Attribute struct {
		Name   string `yaml:"name"`
		Degree string `yaml:"degree"`
	} `yaml:"attribute"`
	Semitone   int    `yaml:"semitone"`
	SemitoneWO int    `yaml:"semitone_without_octave"`
	Root       string `yaml:"root"`
	Applied    string `yaml:"applied"`
	OctaveDiff int    `yaml:"octave_diff"`
}

func c15CheckInfo(a yAttrInfo, root theory.Note, iv theory.Interval, sharp bool) string {
	size := iv.MustSize()
	if a.Semitone != size {
		return fmt.Sprintf("semitone %d, theory says %d", a.Semitone, size)
	}
	if a.SemitoneWO != ((size%12)+12)%12 {
		return fmt.Sprintf("semitone_without_octave %d, want %d", a.SemitoneWO, ((size%12)+12)%12)
	}
	if d, ok := theory.ParseNotation(a.Attribute.Degree); !ok || d != iv {
		return fmt.Sprintf("attribute degree printed as %q, want %q", a.Attribute.Degree, iv.Notation())
	}
	if a.Root != root.String() {
		return fmt.Sprintf("root echoed as %q", a.Root)
	}
	ap, ok := theory.ParseNote(a.Applied)
	if !ok {
		return fmt.Sprintf("applied note %q unreadable", a.Applied)
	}
	if ap.Offset()+12*a.OctaveDiff != root.Offset()+size {
		return fmt.Sprintf("applied %s with octave_diff %d is %d semitones above C, root + interval is %d", a.Applied, a.OctaveDiff, ap.Offset()+12*a.OctaveDiff, root.Offset()+size)
	}
	pc := (((root.Offset() + size) % 12) + 12) % 12
	white := map[int]bool{0: true, 2: true, 4: true, 5: true, 7: true, 9: true, 11: true}[pc]
	switch {
	case white && ap.Acc != 0:
		return fmt.Sprintf("applied note spelled %s although its pitch class is a natural note", a.Applied)
	case !white && sharp && ap.Acc != 1:
		return fmt.Sprintf("applied note spelled %s, a sharp was requested", a.Applied)
	case !white && !sharp && ap.Acc != -1:
		return fmt.Sprintf("applied note spelled %s, a flat is the default preference", a.Applied)
	}
	return ""
}

func c15DescribeEval(e *Env, d *dict.Dict, c c15Describe) {
	e.R.Eval(1)
	fail := func(class, msg string) {
		e.R.Fail(ev.Fail{Class: class, Msg: fmt.Sprintf("info %s describe -t %q root %s sharp=%v: %s", c.Kind, c.Target, c.Root, c.Sharp, msg), Kind: "describe", Case: c})
	}
	root, _ := theory.ParseNote(c.Root)
	var args []string
	if c.Kind == "attr" {
		args = []string{"info", "attr", "describe", "-t", c.Target, "-r", c.Root}
	} else {
		sym := c.Target
		if sym != "" {
			sym = "_" + sym // `_` introduces a symbol: needed for numeric symbols and for long names starting with a note letter
		}
		args = []string{"info", "chord", "describe", "-t", c.Root + sym}
	}
	if c.Sharp {
		args = append(args, "-s")
	}
	r := cli.In("", args...)
	if !r.OK() {
		cl := "C15/describe-fails/" + c.Kind
		if r.Crashed() {
			cl = "C15/describe-crashes/" + c.Kind
		}
		fail(cl, firstLine(r.Stderr))
		return
	}
	if c.Kind == "attr" {
		var a yAttrInfo
		if err := yaml.Unmarshal(r.Stdout, &a); err != nil {
			fail("C15/describe-output/attr", err.Error())
			return
		}
		if msg := c15CheckInfo(a, root, d.Attrs[c.Target], c.Sharp); msg != "" {
			fail("C15/describe-wrong/attr", msg)
		}
		e.R.Outcome(a.Applied + fmt.Sprint(a.OctaveDiff))
		return
	}
	var ci struct {
		Root       string      `yaml:"root"`
		Attributes []yAttrInfo `yaml:"attributes"`
	}
	if err := yaml.Unmarshal(r.Stdout, &ci); err != nil {
		fail("C15/describe-output/chord", err.Error())
		return
	}
	ivs, ok := d.Resolve(c.Target)
	if !ok {
		panic("C15 harness: unknown symbol " + c.Target)
	}
	if len(ci.Attributes) != len(ivs) {
		fail("C15/describe-wrong/chord", fmt.Sprintf("%d attributes listed, the symbol has %d", len(ci.Attributes), len(ivs)))
		return
	}
	for i, a := range ci.Attributes {
		if msg := c15CheckInfo(a, root, ivs[i], c.Sharp); msg != "" {
			fail("C15/describe-wrong/chord", fmt.Sprintf("attribute %d: %s", i, msg))
			return
		}
	}
	e.R.Outcome(fmt.Sprint(len(ci.Attributes)))
}

func runC15(e *Env) {
	e.R.Rule = "numbers 1..64 x 7 qualities (existence, size, print/parse); every notation string of length <= 6 over {b,#,0,1,2,9}; `info attr describe` for 21 roots x every dictionary attribute x both accidental preferences (complete); `info chord describe` for roots x 46 symbols x 2. distinct = distinct (number, quality), string or (target, root, preference); non-trivial = the implementation produced an interval/description that was compared with theory"
	e.R.Assume("reference: size formula of ref/theory; spelling equation letter(applied)+accidental+12*octave_diff = letter(root)+accidental(root)+size; natural if the pitch class is a white key, otherwise the requested accidental")
	for n := 1; n <= 64; n++ {
		for _, q := range theory.AllQualities {
			i := theory.Interval{Num: n, Q: q}
			c15Interval1(e, i)
			e.R.State(i.String())
			e.R.Transition(1)
			if i.Exists() {
				e.R.NonTrivial(i.String())
			}
		}
	}
	// also beyond: 65..200 sizes (octave recursion)
	for n := 65; n <= 200; n++ {
		for _, q := range theory.AllQualities {
			c15Interval1(e, theory.Interval{Num: n, Q: q})
		}
	}
	e.R.AddPart(ev.Part{Name: "intervals", Enumerated: "numbers 1..64 (and 65..200) x 7 qualities: existence, size, printed notation, print/parse", Executions: 200 * 7, States: 448, Transitions: 448, Exhaustive: true})

	alpha := []string{"b", "#", "0", "1", "2", "9"}
	strMax := 6
	if e.Thorough {
		alpha = append(alpha, "5") // one more digit rather than one more position: 7-digit numbers cost a recursion a million frames deep each
	}
	var strs []string
	var gen func(s string)
	gen = func(s string) {
		if s != "" {
			strs = append(strs, s)
		}
		if len(s) == strMax {
			return
		}
		for _, a := range alpha {
			gen(s + a)
		}
	}
	gen("")
	mc.ParFor(len(strs), func(i int) {
		c15Notation(e, strs[i])
		e.R.Trace(1)
	})
	e.R.AddPart(ev.Part{Name: "notation-strings", Enumerated: fmt.Sprintf("all %d strings of length 1..6 (over one more digit in thorough) over {b,#,0,1,2,9}", len(strs)), Executions: int64(len(strs)), Exhaustive: true})

	d, err := refDict(e.RepoDir, nil, nil)
	if err != nil {
		panic(err)
	}
	_ = filepath.Join
	var cases []c15Describe
	roots := noteSpellings()
	var attrNames []string
	for name := range d.Attrs {
		attrNames = append(attrNames, name)
	}
	for _, r := range roots {
		for _, a := range attrNames {
			for _, s := range []bool{false, true} {
				cases = append(cases, c15Describe{"attr", a, r.String(), s})
			}
		}
	}
	seen := map[string]bool{}
	nroots := 21
	for ri, r := range roots {
		_ = ri
		for _, c := range d.Order {
			for _, sym := range []string{c.Name, c.Meta.Display} {
				// long names cannot be written in chord text unless they lex as a symbol; both are tried
				for _, s := range []bool{false, true} {
					k := fmt.Sprint(r, sym, s)
					if !seen[k] {
						seen[k] = true
						cases = append(cases, c15Describe{"chord", sym, r.String(), s})
					}
				}
			}
		}
	}
	mc.ParFor(len(cases), func(i int) {
		c15DescribeEval(e, d, cases[i])
		e.R.Trace(1)
		e.R.NonTrivial(fmt.Sprint("d", i))
	})
	e.R.AddPart(ev.Part{Name: "describe-cli", Enumerated: fmt.Sprintf("real binary: `info attr describe` 21 roots x %d attributes x {flat, sharp} (complete); `info chord describe` %d roots x 46 look-ups x 2", len(attrNames), nroots), Executions: int64(len(cases)), Exhaustive: true})
	c15GenAttr(e)
	e.R.Sample(map[string]any{"describe": "info attr describe -t Diminished1 -r C", "oracle": "applied B, octave_diff -1: 11 - 12 = 0 + (-1)"})
}

// c15GenAttr: the attribute lists `crd gen attr -d N` generates name every interval below the
// bound once, under its English name, with a notation that reads back as that interval.
func c15GenAttr(e *Env) {
	bounds := []int{1, 2, 3, 8, 9, 15, 16, 21, 22, 23, 64, 65, 100, 200}
	mc.ParFor(len(bounds), func(bi int) { c15GenAttr1(e, bounds[bi]) })
	e.R.AddPart(ev.Part{Name: "gen-attr", Enumerated: fmt.Sprintf("real binary: `gen attr -d N` for N in %v: every entry is the English name of an existing interval with a notation that reads back as it, none twice, every perfect/major/minor/augmented/diminished interval up to the last listed number present", bounds), Executions: int64(len(bounds)), Exhaustive: true})
}

func c15GenAttr1(e *Env, d int) {
	{
		e.R.Eval(1)
		fail := func(class, msg string) {
			e.R.Fail(ev.Fail{Class: class, Msg: fmt.Sprintf("crd gen attr -d %d: %s", d, msg), Kind: "gen-attr", Case: d})
		}
		r := cli.In("", "gen", "attr", "-d", fmt.Sprint(d))
		if !r.OK() {
			fail("C15/gen-attr/fails", firstLine(r.Stderr))
			return
		}
		var list []dict.AttrDef
		if err := yaml.Unmarshal(r.Stdout, &list); err != nil {
			fail("C15/gen-attr/output", err.Error())
			return
		}
		seen := map[string]bool{}
		maxN := 0
		for _, a := range list {
			want, ok := dict.AttributeByEnglishName(a.Name)
			if !ok {
				fail("C15/gen-attr/name", fmt.Sprintf("%q is not the name of an interval that exists", a.Name))
				return
			}
			got, ok := theory.ParseNotation(a.Degree)
			if !ok || got != want {
				fail("C15/gen-attr/notation", fmt.Sprintf("%s is given the notation %q, which reads as %v", a.Name, a.Degree, got))
				return
			}
			if seen[a.Name] {
				fail("C15/gen-attr/duplicate", a.Name+" is listed twice")
				return
			}
			seen[a.Name] = true
			if want.Num > maxN {
				maxN = want.Num
			}
		}
		if d >= 2 && (maxN < d-1 || maxN > d) {
			fail("C15/gen-attr/bound", fmt.Sprintf("the list reaches number %d", maxN))
			return
		}
		for n := 1; n <= maxN; n++ {
			for _, q := range []theory.Quality{theory.Perfect, theory.Major, theory.Minor, theory.Augmented, theory.Diminished} {
				i := theory.Interval{Num: n, Q: q}
				name := map[theory.Quality]string{theory.Perfect: "Perfect", theory.Major: "Major", theory.Minor: "Minor", theory.Augmented: "Augmented", theory.Diminished: "Diminished"}[q] + fmt.Sprint(n)
				if i.Exists() && !seen[name] {
					fail("C15/gen-attr/missing", fmt.Sprintf("%s exists below the bound and is not listed", i))
					return
				}
			}
		}
		e.R.NonTrivialN(int64(len(list)))
		e.R.Outcome(fmt.Sprint(len(list)))
	}
}
