package props

import (
	"bytes"
	"encoding/json"
	"fmt"
	"sort"
	"strings"
	"sync/atomic"

	"verif/ev"
	"verif/mc"
	refplay "verif/ref/play"
	"verif/ref/smf"
	"verif/ref/theory"
)

// C05 — one progression, one meaning: degrees vs note names in any key, key changes, transposition.

// absChord is a chord written abstractly; Key != "" attaches {key=Key} to it.
type absChord struct {
	Rest   bool   `json:"rest,omitempty"`
	Root   string `json:"root,omitempty"` // interval notation, prefix form
	Symbol string `json:"symbol,omitempty"`
	Bass   string `json:"bass,omitempty"`
	Key    string `json:"key,omitempty"`
}

type c05Case struct {
	Key    string     `json:"key"`
	Chords []absChord `json:"chords"`
	Path   string     `json:"path"`
	Degree string     `json:"degree_text,omitempty"`
	Names  string     `json:"name_text,omitempty"`
}

type c05Transpose struct {
	Doc  int    `json:"doc"`
	K1   string `json:"k1"`
	K2   string `json:"k2"`
	Path string `json:"path"`
}

func init() {
	register(&Prop{ID: "C05", Run: runC05, Replay: map[string]func(*Env, json.RawMessage){
		"progression": func(e *Env, raw json.RawMessage) { c := decode[c05Case](raw); c05Eval(e, &c, true) },
		"transpose":   func(e *Env, raw json.RawMessage) { c05TransposeEval(e, decode[c05Transpose](raw)) },
	}})
}

// suffixForm writes an interval the way chord text does: number then accidental marks.
func suffixForm(n string) string {
	i := 0
	for i < len(n) && (n[i] == 'b' || n[i] == '#') {
		i++
	}
	return n[i:] + n[:i]
}

// spellAbove spells the note a given interval above a note: letter by number, accidental by size.
func spellAbove(from theory.Note, iv theory.Interval) (theory.Note, bool) {
	letter := (from.Letter + iv.Num - 1) % 7
	n := theory.Note{Letter: letter}
	want := ((from.PC()+iv.MustSize())%12 + 12) % 12
	for _, acc := range []int{0, 1, -1} {
		n.Acc = acc
		if n.PC() == want {
			return n, true
		}
	}
	return n, false
}

// render returns the degree text and the note-name text of a progression starting in key.
func c05Render(key string, chords []absChord) (deg, names string, ok bool) {
	k, _ := theory.ParseKey(key)
	var d, n []string
	for _, c := range chords {
		meta := ""
		if c.Key != "" {
			meta = "{key=" + c.Key + "}"
			k, _ = theory.ParseKey(c.Key)
		}
		if c.Rest {
			d = append(d, "R[1]"+meta)
			n = append(n, "R[1]"+meta)
			continue
		}
		root := iv(c.Root)
		rn, ok1 := spellAbove(k.Tonic, root)
		if !ok1 {
			return "", "", false
		}
		ds := suffixForm(c.Root)
		ns := rn.String()
		sym := c.Symbol
		if sym != "" && sym[0] >= '0' && sym[0] <= '9' {
			sym = "_" + sym
		}
		ds += sym
		ns += sym
		if c.Bass != "" {
			bn, ok2 := spellAbove(rn, iv(c.Bass))
			if !ok2 {
				return "", "", false
			}
			ds += "/" + suffixForm(c.Bass)
			ns += "/" + bn.String()
		}
		d = append(d, ds+"[1]"+meta)
		n = append(n, ns+"[1]"+meta)
	}
	return strings.Join(d, " "), strings.Join(n, " "), true
}

var c05Skipped int64

func c05Eval(e *Env, c *c05Case, report bool) bool {
	deg, names, ok := c05Render(c.Key, c.Chords)
	if !ok {
		atomic.AddInt64(&c05Skipped, 1)
		return true
	}
	c.Degree, c.Names = deg, names
	e.R.Eval(1)
	fail := func(class, msg string) bool {
		if report {
			e.R.Fail(ev.Fail{Class: class, Msg: fmt.Sprintf("key %s: degree text %q vs note-name text %q: %s", c.Key, deg, names, msg), Kind: "progression", Case: c})
		}
		return false
	}
	a := runConv(c.Path, deg, "degree", "")
	b := runConv(c.Path, names, "syllable", c.Key)
	if a.Crashed || b.Crashed || a.Hang || b.Hang {
		return fail("C05/crash-or-hang", a.Err+" / "+b.Err)
	}
	hasChord := false
	for _, ch := range c.Chords {
		hasChord = hasChord || !ch.Rest
	}
	if !hasChord && a.Err != "" && b.Err != "" {
		e.R.Outcome("rest-only piece refused by both notations")
		return true // a piece without any chord has no notation to speak of; both refuse alike
	}
	if a.Err != "" {
		return fail("C05/degree-text-refused", "text conv degree refuses: "+a.Err)
	}
	if b.Err != "" {
		return fail("C05/name-text-refused", "text conv syllable refuses a progression whose notes all have a single accidental at most: "+b.Err)
	}
	if !bytes.Equal(a.Out, b.Out) {
		return fail("C05/conversions-differ/"+c05Shape(c), fmt.Sprintf("the two conversions differ:\n--- degree ---\n%s--- syllable ---\n%s", a.Out, b.Out))
	}
	e.R.Outcome(string(a.Out))
	return true
}

func c05Shape(c *c05Case) string {
	for i, ch := range c.Chords {
		if ch.Key != "" {
			if ch.Rest {
				return "key-change-on-rest"
			}
			if i == 0 {
				return "key-change-on-first"
			}
			return "key-change"
		}
	}
	return "no-key-change"
}

// documents for the transposition relation
func c05Docs() [][]refplay.Inst {
	ch := func(d, s string, b *theory.Interval) refplay.Inst {
		return refplay.Inst{Chord: &refplay.Chord{Degree: iv(d), Symbol: s, Bass: b}, Values: one()}
	}
	withKey := ch("4", "m7", nil)
	withKey.Key = sp("Ebm")
	txt := ch("1", "", nil)
	txt.Meta = map[string]string{"txt": "hello"}
	txt.BPM = up(90)
	rest := refplay.Inst{Values: one()}
	ownKey := func(k string) refplay.Inst {
		in := ch("1", "", ivp("5"))
		in.Key = sp(k)
		return in
	}
	return [][]refplay.Inst{
		{ownKey("C"), ownKey("G"), ownKey("C"), ch("5", "7", nil)},
		{ch("1", "", nil)},
		{ch("1", "", nil), ch("5", "7", ivp("3")), ch("b6", "maj7", nil)},
		{rest, ch("2", "m7", nil), rest, ch("#4", "dim", ivp("b7"))},
		{txt, ch("b3", "aug", nil), rest},
		{ch("1", "", nil), withKey, ch("5", "7", nil)},
		{rest, ch("7", "m7b5", ivp("5")), withKey, rest, ch("1", "", nil)},
	}
}

type noteEv struct {
	tick int64
	on   bool
	key  int
	vel  int
}

func notesAndRest(f *smf.File) (notes []noteEv, others []string) {
	for _, tr := range f.Tracks {
		for _, e := range tr {
			switch {
			case e.IsNoteOn():
				notes = append(notes, noteEv{e.Tick, true, e.Key(), int(e.Data[1])})
			case e.IsNoteOff():
				notes = append(notes, noteEv{e.Tick, false, e.Key(), 0})
			case e.Tick == 0 && e.IsMeta(0x59):
			default:
				others = append(others, e.String())
			}
		}
	}
	sort.Slice(notes, func(i, j int) bool {
		a, b := notes[i], notes[j]
		if a.tick != b.tick {
			return a.tick < b.tick
		}
		if a.on != b.on {
			return !a.on
		}
		return a.key < b.key
	})
	sort.Strings(others)
	return
}

func c05TransposeEval(e *Env, c c05Transpose) {
	e.R.Eval(1)
	docs := c05Docs()
	insts := docs[c.Doc]
	doc := refplay.YAML(insts)
	k1, _ := theory.ParseKey(c.K1)
	k2, _ := theory.ParseKey(c.K2)
	fail := func(class, msg string) {
		e.R.Fail(ev.Fail{Class: class, Msg: fmt.Sprintf("document %d with --key %s vs --key %s (%s): %s", c.Doc, c.K1, c.K2, c.Path, msg), Kind: "transpose", Case: c})
	}
	r1 := runWrite(c.Path, doc, writeCfg{Flags: refplay.Flags{Key: &c.K1}})
	r2 := runWrite(c.Path, doc, writeCfg{Flags: refplay.Flags{Key: &c.K2}})
	if r1.Err != "" || r2.Err != "" {
		fail("C05/transpose/refused", r1.Err+" / "+r2.Err)
		return
	}
	f1, e1 := smf.Parse(r1.Bytes)
	f2, e2 := smf.Parse(r2.Bytes)
	if e1 != nil || e2 != nil {
		fail("C05/transpose/undecodable", fmt.Sprint(e1, e2))
		return
	}
	// the flag governs the instances before the first instance that sets its own key (instance 0's key is replaced by the flag)
	var boundary int64 = 1 << 62
	var tick int64
	for i, in := range insts {
		if i > 0 && in.Key != nil {
			boundary = tick
			break
		}
		tick += int64(f1.Division)
	}
	n1, o1 := notesAndRest(f1)
	n2, o2 := notesAndRest(f2)
	if strings.Join(o1, "\n") != strings.Join(o2, "\n") {
		fail("C05/transpose/other-events-changed", fmt.Sprintf("events other than notes and the tick-0 key signature differ: %v vs %v", o1, o2))
		return
	}
	if len(n1) != len(n2) {
		fail("C05/transpose/note-count", fmt.Sprintf("%d vs %d note events", len(n1), len(n2)))
		return
	}
	shift := k2.TonicOffset() - k1.TonicOffset()
	for i := range n1 {
		a, b := n1[i], n2[i]
		s := 0
		if a.tick < boundary || (a.tick == boundary && !a.on) {
			s = shift
		}
		if a.tick != b.tick || a.on != b.on || a.vel != b.vel || a.key+s != b.key {
			fail("C05/transpose/pitch-shift", fmt.Sprintf("note event %d: %+v under %s, %+v under %s; expected a shift of %d semitones and nothing else", i, a, c.K1, b, c.K2, s))
			return
		}
	}
}

func runC05(e *Env) {
	e.R.Rule = "all progressions up to the stated length over an abstract chord alphabet (12 roots x {'', m7} x {no bass, 3, 5, b7} + rest) rendered as degree text and as note-name text in each of the 28 keys must convert to the same bytes; all placements of {key=K'} on progressions of <= 4 chords over 6^3 key triples; the 28x28 key-change graph; the same document played under every pair of the 28 keys must differ by the tonic distance only. distinct = (key(s), progression); non-trivial = contains at least one chord"
	e.R.Assume("metamorphic oracles (no expected values) plus ref/theory for spelling and tonic distance; note names needing a double accidental are skipped and counted")
	keys := theory.SupportedKeys()
	roots := []string{"1", "b2", "2", "b3", "3", "4", "#4", "5", "b6", "6", "b7", "7"}
	var A []absChord
	A = append(A, absChord{Rest: true})
	for _, r := range roots {
		for _, s := range []string{"", "m7"} {
			for _, b := range []string{"", "3", "5", "b7"} {
				A = append(A, absChord{Root: r, Symbol: s, Bass: b})
			}
		}
	}
	sub := []absChord{{Rest: true}, {Root: "1"}, {Root: "b3", Symbol: "m7"}, {Root: "#4", Symbol: "dim", Bass: "b7"}, {Root: "5", Symbol: "7", Bass: "3"}, {Root: "b6", Symbol: "maj7"}, {Root: "7", Symbol: "m7b5", Bass: "5"}, {Root: "2", Symbol: "m"}, {Root: "b7", Symbol: "9"}, {Root: "4", Symbol: "6", Bass: "5"}}

	// (a) conversion equality
	var progs [][]absChord
	for _, a := range A {
		progs = append(progs, []absChord{a})
		if e.Thorough || a.Bass == "" || a.Bass == "b7" {
			for _, b := range A {
				if e.Thorough || b.Symbol == "" {
					progs = append(progs, []absChord{a, b})
				}
			}
		}
	}
	subLen := 3
	if e.Thorough {
		subLen = 4
	}
	var gen func(p []absChord)
	gen = func(p []absChord) {
		if len(p) >= 3 {
			progs = append(progs, append([]absChord{}, p...))
		}
		if len(p) == subLen {
			return
		}
		for _, s := range sub {
			gen(append(p, s))
		}
	}
	gen(nil)
	type job struct {
		k int
		p int
	}
	total := len(keys) * len(progs)
	mc.ParFor(total, func(i int) {
		k, pi := keys[i%len(keys)], progs[i/len(keys)]
		c := c05Case{Key: k.String(), Chords: pi, Path: "lib"}
		if !c05Eval(e, &c, false) {
			c05Eval(e, &c, true)
		}
		e.R.Trace(1)
		e.R.Transition(int64(len(pi)))
		if len(pi) > 1 || !pi[0].Rest {
			e.R.NonTrivial(fmt.Sprint(i))
		}
	})
	e.R.AddPart(ev.Part{Name: "conversion-equality", Enumerated: fmt.Sprintf("%d progressions (length <= 2 over 97 abstract chords%s, length 3..%d over a 10-element sub-alphabet) x 28 keys", len(progs), map[bool]string{true: "", false: " restricted to first chords without bass or with b7 and plain second chords"}[e.Thorough], subLen), Executions: int64(total), Exhaustive: true, Note: fmt.Sprintf("%d renderings skipped (double accidental needed)", atomic.LoadInt64(&c05Skipped))})

	// (b) key-change placements and the 28 x 28 change graph
	six := []string{"C", "Cb", "F#", "Am", "Ebm", "G#m"}
	base := []absChord{{Root: "1"}, {Root: "b3", Symbol: "m7", Bass: "5"}, {Rest: true}, {Root: "5", Symbol: "7", Bass: "3"}}
	var kcases []c05Case
	for _, k0 := range six {
		for _, k1 := range six {
			for _, k2 := range six {
				for mask := 1; mask < 16; mask++ {
					ch := append([]absChord{}, base...)
					ks := []string{k1, k2, k1, k2}
					for j := 0; j < 4; j++ {
						if mask>>uint(j)&1 == 1 {
							ch[j].Key = ks[j]
						}
					}
					kcases = append(kcases, c05Case{Key: k0, Chords: ch, Path: "lib"})
				}
			}
		}
	}
	for _, k0 := range keys {
		for _, k1 := range keys {
			kcases = append(kcases, c05Case{Key: k0.String(), Path: "lib", Chords: []absChord{{Root: "2", Symbol: "m"}, {Root: "b7", Bass: "3", Key: k1.String()}, {Root: "4"}}})
			e.R.State("scale:" + k1.String())
		}
	}
	// the same note-name spelling on both sides of a key change (a converter that remembers
	// spellings must forget them when the key changes): V/3 in K = I/3 in the dominant key, IV/5 in K = I/5 in the subdominant key
	for _, k0 := range keys {
		for _, step := range []struct {
			by            byte
			before, after absChord
		}{
			{'d', absChord{Root: "5", Bass: "3"}, absChord{Root: "1", Bass: "3"}},
			{'d', absChord{Root: "5", Symbol: "7"}, absChord{Root: "1", Symbol: "7"}},
			{'s', absChord{Root: "4", Bass: "5"}, absChord{Root: "1", Bass: "5"}},
			{'r', absChord{Root: "6", Symbol: "m", Bass: "b3"}, absChord{Root: "1", Symbol: "m", Bass: "b3"}},
		} {
			if k0.Minor && step.by == 'r' {
				continue
			}
			pc, minor := k0.Step(step.by)
			sp := theory.SpellingsOf(pc, minor)
			if len(sp) == 0 {
				continue
			}
			after := step.after
			after.Key = sp[0]
			kcases = append(kcases, c05Case{Key: k0.String(), Path: "lib", Chords: []absChord{step.before, {Root: "2", Symbol: "m"}, after, step.before, after}})
		}
	}
	// the same written note on both sides of a change between ANY two keys (a converter that
	// remembers what a spelling meant must key that memory by the whole key): for every ordered
	// pair (K1, K2) and each of four notes, [N in K1] [N in K2, carrying the change] [N again]
	between := func(a, b theory.Note) (string, bool) {
		num := theory.LetterDistance(a, b)
		size := theory.PitchDistance(a, b)
		for _, q := range theory.AllQualities {
			iv := theory.Interval{Num: num, Q: q}
			if s, ok := iv.Size(); ok && s == size {
				// chord text can write one accidental mark only: "", b (minor, or diminished of a perfect interval), #
				switch {
				case q == theory.Perfect || q == theory.Major:
					return fmt.Sprint(num), true
				case q == theory.Minor || q == theory.Diminished && theory.PerfectClass(num):
					return "b" + fmt.Sprint(num), true
				case q == theory.Augmented:
					return "#" + fmt.Sprint(num), true
				}
				return "", false
			}
		}
		return "", false
	}
	for _, k1 := range keys {
		for _, k2 := range keys {
			if k1 == k2 {
				continue
			}
			sc := k2.Scale()
			for _, n := range []theory.Note{sc[0], sc[2], sc[4], sc[6]} {
				d1, ok1 := between(k1.Tonic, n)
				d2, ok2 := between(k2.Tonic, n)
				if !ok1 || !ok2 {
					continue
				}
				kcases = append(kcases, c05Case{Key: k1.String(), Path: "lib", Chords: []absChord{{Root: d1, Symbol: "m7"}, {Root: d2, Symbol: "m7", Key: k2.String()}, {Root: d2}}})
			}
		}
	}
	mc.ParFor(len(kcases), func(i int) {
		c := kcases[i]
		if !c05Eval(e, &c, false) {
			c05Eval(e, &c, true)
		}
		e.R.Trace(1)
		e.R.Transition(1)
		e.R.NonTrivial("kc" + fmt.Sprint(i))
		if i%2 == 0 || e.Thorough {
			cc := kcases[i]
			cc.Path = "cli"
			c05Eval(e, &cc, true)
		}
	})
	e.R.AddPart(ev.Part{Name: "key-change-placements", Enumerated: "4-element progression (chord, chord with bass, rest, chord) x every non-empty subset of positions carrying {key=..} x 6^3 key triples from {C,Cb,F#,Am,Ebm,G#m}; plus the complete 28 x 28 graph of converter-scale changes (state = scale in force, every edge replayed as [chord][chord+key change][chord]); plus, for every ordered pair of keys, the same written note before and after the change; real binary for every 2nd (quick) / all (thorough)", Executions: int64(len(kcases)), States: 28, Transitions: int64(len(kcases)), Exhaustive: true})

	// (b2) long progressions: 130 chords (period 6: I, V7/5, rest, IIm, VIm7, IV/5) with one key
	// change at every position, and with two key changes (there and back) 50 chords apart
	longBase := []absChord{{Root: "1"}, {Root: "5", Symbol: "7", Bass: "5"}, {Rest: true}, {Root: "2", Symbol: "m"}, {Root: "6", Symbol: "m7"}, {Root: "4", Bass: "5"}}
	var lcases []c05Case
	lkeys := []string{"C", "F#", "Ebm", "Cb", "G#m", "A"}
	if e.Thorough {
		lkeys = nil
		for _, k := range keys {
			lkeys = append(lkeys, k.String())
		}
	}
	for ki, k := range lkeys {
		to := lkeys[(ki+1)%len(lkeys)]
		for p := 0; p < 130; p++ {
			var cs []absChord
			for i := 0; i < 130; i++ {
				c := longBase[i%len(longBase)]
				if i == p {
					c.Key = to
				}
				if i == p+50 {
					c.Key = k
				}
				cs = append(cs, c)
			}
			lcases = append(lcases, c05Case{Key: k, Chords: cs, Path: "lib"})
		}
	}
	mc.ParFor(len(lcases), func(i int) {
		c := lcases[i]
		if _, _, ok := c05Render(c.Key, c.Chords); !ok {
			panic("C05 harness: a long progression cannot be spelled in key " + c.Key)
		}
		c05Eval(e, &c, true)
		e.R.Trace(1)
		e.R.Transition(130)
		if i%20 == 0 {
			cc := lcases[i]
			cc.Path = "cli"
			c05Eval(e, &cc, true)
		}
	})
	e.R.NonTrivialN(int64(len(lcases)))
	e.R.AddPart(ev.Part{Name: "long-progressions", Enumerated: fmt.Sprintf("progressions of 130 chords (period 6: I, V7/5, rest, IIm, VIm7, IV/5) in %d keys with a key change at every position p and the change back at p+50: degree text and note-name text convert to the same bytes; in-process, every 20th through the real binary", len(lkeys)), Executions: int64(len(lcases)), Transitions: int64(130 * len(lcases)), Exhaustive: true})

	// (c) transposition
	var tc []c05Transpose
	for d := range c05Docs() {
		for _, a := range keys {
			for _, b := range keys {
				tc = append(tc, c05Transpose{d, a.String(), b.String(), "lib"})
			}
		}
	}
	mc.ParFor(len(tc), func(i int) {
		c05TransposeEval(e, tc[i])
		e.R.Trace(1)
		e.R.NonTrivial("tr" + fmt.Sprint(i))
		if e.Thorough || i%28 == ((i/28)%28+5)%28 || i%28 == ((i/28)%28+16)%28 {
			c := tc[i]
			c.Path = "cli"
			c05TransposeEval(e, c)
		}
	})
	e.R.AddPart(ev.Part{Name: "transposition", Enumerated: "7 documents (rests, settings, texts, inner key change, a later instance returning to the first instance's own key) x all 28 x 28 pairs of --key values in-process; real binary for two pairs of different keys per key and document (quick) / all pairs (thorough)", Executions: int64(len(tc)), Exhaustive: true})
	e.R.Sample(map[string]any{"key": "F#", "degree_text": "1[1] 3bm7/5[1]{key=Ebm} R[1] 5_7/3[1]", "name_text": "F#[1] Gbm7/Db[1]{key=Ebm} R[1] Bb_7/D[1]"})
}
