// Package dict is the reference reading of chord dictionaries: the conventional interval
// sets of the built-in symbols (absolute), the English reading of attribute names
// (absolute) and an independent loader of chord/attribute YAML files with iterative
// `extends` resolution and explicit cycle/dangling detection (relative).
package dict

import (
	"fmt"
	"os"
	"regexp"
	"strconv"

	"gopkg.in/yaml.v3"

	"verif/ref/theory"
)

// Conventional semitone sets above the root of the built-in symbols, as the property lists them.
var Conventional = map[string][]int{
	"":      {0, 4, 7},
	"m":     {0, 3, 7},
	"dim":   {0, 3, 6},
	"aug":   {0, 4, 8},
	"7":     {0, 4, 7, 10},
	"M7":    {0, 4, 7, 11},
	"maj7":  {0, 4, 7, 11},
	"m7":    {0, 3, 7, 10},
	"mM7":   {0, 3, 7, 11},
	"m7b5":  {0, 3, 6, 10},
	"dim7":  {0, 3, 6, 9},
	"augM7": {0, 4, 8, 11},
	"9":     {0, 4, 7, 10, 14},
	"m9":    {0, 3, 7, 10, 14},
	"M9":    {0, 4, 7, 11, 14},
	"maj9":  {0, 4, 7, 11, 14},
	"mM9":   {0, 3, 7, 11, 14},
	"sus4":  {0, 5, 7},
	"7sus4": {0, 5, 7, 10},
	"6":     {0, 4, 7, 9},
	"m6":    {0, 3, 7, 9},
	"add9":  {0, 4, 7, 14},
	"sus2":  {0, 2, 7},
}

var attrName = regexp.MustCompile(`^(Major|Minor|Perfect|Augmented|Diminished)([0-9]+)$`)

// AttributeByEnglishName reads "Minor7", "Perfect11", ...
func AttributeByEnglishName(name string) (theory.Interval, bool) {
	m := attrName.FindStringSubmatch(name)
	if m == nil {
		return theory.Interval{}, false
	}
	n, err := strconv.Atoi(m[2])
	if err != nil {
		return theory.Interval{}, false
	}
	q := map[string]theory.Quality{"Major": theory.Major, "Minor": theory.Minor, "Perfect": theory.Perfect, "Augmented": theory.Augmented, "Diminished": theory.Diminished}[m[1]]
	i := theory.Interval{Num: n, Q: q}
	return i, i.Exists()
}

// ChordDef is one chord entry as written.
type ChordDef struct {
	Name string `yaml:"name" json:"name"`
	Meta struct {
		Display string `yaml:"display" json:"display"`
	} `yaml:"meta" json:"meta"`
	Attributes []string `yaml:"attributes,omitempty" json:"attributes,omitempty"`
	Extends    string   `yaml:"extends,omitempty" json:"extends,omitempty"`
}

// AttrDef is one attribute entry as written.
type AttrDef struct {
	Name   string `yaml:"name" json:"name"`
	Degree string `yaml:"degree" json:"degree"`
}

// Dict is a loaded dictionary.
type Dict struct {
	Attrs  map[string]theory.Interval
	Chords map[string]ChordDef // by name and by display; later entries win
	Order  []ChordDef
}

// LoadFiles reads attribute and chord files in order (built-ins first).
func LoadFiles(attrFiles, chordFiles []string) (*Dict, error) {
	var attrs []AttrDef
	var chords []ChordDef
	for _, f := range attrFiles {
		b, err := os.ReadFile(f)
		if err != nil {
			return nil, err
		}
		var a []AttrDef
		if err := yaml.Unmarshal(b, &a); err != nil {
			return nil, fmt.Errorf("%s: %w", f, err)
		}
		attrs = append(attrs, a...)
	}
	for _, f := range chordFiles {
		b, err := os.ReadFile(f)
		if err != nil {
			return nil, err
		}
		var c []ChordDef
		if err := yaml.Unmarshal(b, &c); err != nil {
			return nil, fmt.Errorf("%s: %w", f, err)
		}
		chords = append(chords, c...)
	}
	return Build(attrs, chords)
}

// Build indexes and validates: unnamed entries, dangling attributes, dangling or cyclic
// extends are errors.
func Build(attrs []AttrDef, chords []ChordDef) (*Dict, error) {
	d := &Dict{Attrs: map[string]theory.Interval{}, Chords: map[string]ChordDef{}, Order: chords}
	for _, a := range attrs {
		if a.Name == "" {
			return nil, fmt.Errorf("unnamed attribute")
		}
		iv, ok := theory.ParseNotation(a.Degree)
		if !ok || !iv.Exists() {
			return nil, fmt.Errorf("attribute %s: bad degree %q", a.Name, a.Degree)
		}
		d.Attrs[a.Name] = iv
	}
	for _, c := range chords {
		if c.Name == "" {
			return nil, fmt.Errorf("unnamed chord")
		}
		if len(c.Attributes) == 0 && c.Extends == "" {
			return nil, fmt.Errorf("chord %s has neither attributes nor extends", c.Name)
		}
		d.Chords[c.Name] = c
		d.Chords[c.Meta.Display] = c
	}
	for key, c := range d.Chords {
		for _, a := range c.Attributes {
			if _, ok := d.Attrs[a]; !ok {
				return nil, fmt.Errorf("chord %s: dangling attribute %s", c.Name, a)
			}
		}
		// iterative walk up the extends chain with a visited set
		seen := map[string]bool{c.Name: true}
		cur := c
		for cur.Extends != "" {
			p, ok := d.Chords[cur.Extends]
			if !ok {
				return nil, fmt.Errorf("chord %s: dangling extends %s", cur.Name, cur.Extends)
			}
			if seen[p.Name] {
				return nil, fmt.Errorf("chord %s (%q): cyclic extends through %s", c.Name, key, p.Name)
			}
			seen[p.Name] = true
			cur = p
		}
	}
	return d, nil
}

// Resolve returns the intervals of a chord looked up by name or display: the parent's
// (transitively, root ancestor first), then its own, in written order.
func (d *Dict) Resolve(nameOrDisplay string) ([]theory.Interval, bool) {
	c, ok := d.Chords[nameOrDisplay]
	if !ok {
		return nil, false
	}
	var chain []ChordDef
	for {
		chain = append(chain, c)
		if c.Extends == "" {
			break
		}
		c = d.Chords[c.Extends]
		if len(chain) > 10000 {
			return nil, false
		}
	}
	var r []theory.Interval
	for i := len(chain) - 1; i >= 0; i-- {
		for _, a := range chain[i].Attributes {
			r = append(r, d.Attrs[a])
		}
	}
	return r, true
}
