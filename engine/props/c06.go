package props

import (
	"encoding/json"
	"fmt"
	"sort"
	"strings"

	"verif/cli"
	"verif/ev"
	"verif/mc"
	refplay "verif/ref/play"
	"verif/ref/smf"
	"verif/ref/timing"
)

// C06 — track count never changes the music; every track ends when the piece ends.

func init() {
	register(&Prop{ID: "C06", Run: runC06, Replay: map[string]func(*Env, json.RawMessage){
		"play": func(e *Env, raw json.RawMessage) {
			m, err := newModel(e)
			if err != nil {
				panic(err)
			}
			c := decode[playCase](raw)
			c06Eval(e, m, &c, true)
		},
		"writer-ops": func(e *Env, raw json.RawMessage) { c02ReplayOps(e, raw) },
		"track-flag": func(e *Env, raw json.RawMessage) { c06TrackFlag(e, decode[int](raw)) },
	}})
}

// merged returns the multiset of (tick, event) over all tracks without end-of-track.
func merged(f *smf.File) map[string]int {
	m := map[string]int{}
	for _, tr := range f.Tracks {
		for _, e := range tr {
			if e.IsMeta(0x2F) {
				continue
			}
			m[fmt.Sprintf("@%d %s", e.Tick, e.Canon())]++
		}
	}
	return m
}

func diffMerged(a, b map[string]int) string {
	var d []string
	for k, n := range a {
		if b[k] != n {
			d = append(d, fmt.Sprintf("%s: %d vs %d", k, n, b[k]))
		}
	}
	for k, n := range b {
		if _, ok := a[k]; !ok {
			d = append(d, fmt.Sprintf("%s: 0 vs %d", k, n))
		}
	}
	sort.Strings(d)
	if len(d) > 6 {
		d = append(d[:6], "…")
	}
	return strings.Join(d, "; ")
}

func c06Shape(c *playCase) string {
	last := c.Insts[len(c.Insts)-1]
	var s []string
	if last.Chord == nil {
		s = append(s, "trailing-rest")
	}
	if c.Cfg.Tracks > 1 {
		s = append(s, "multi-track")
	} else {
		s = append(s, "single-track")
	}
	return strings.Join(s, "+")
}

// c06Eval plays the document with --track N and with --track 1 and compares.
func c06Eval(e *Env, m *refplay.Model, c *playCase, report bool) bool {
	doc := refplay.YAML(c.Insts)
	fail := func(class, s string) bool {
		if report {
			c.fill()
			e.R.Fail(ev.Fail{Class: class, Msg: s, Kind: "play", Case: c})
		}
		return false
	}
	e.R.Eval(1)
	one := c.Cfg
	one.Tracks = 1
	r1 := runWrite(c.Path, doc, one)
	rn := runWrite(c.Path, doc, c.Cfg)
	if r1.Err != "" || rn.Err != "" {
		cl := "C06/refused/" + c.Path
		if r1.Crashed || rn.Crashed {
			cl = "C06/crash/" + c.Path
		}
		return fail(cl, fmt.Sprintf("valid document refused: --track 1: %q, --track %d: %q", r1.Err, c.Cfg.Tracks, rn.Err))
	}
	f1, err1 := smf.Parse(r1.Bytes)
	fn, errn := smf.Parse(rn.Bytes)
	if err1 != nil || errn != nil {
		return fail("C06/undecodable/"+c.Path, fmt.Sprintf("not a readable SMF: --track 1: %v; --track %d: %v", err1, c.Cfg.Tracks, errn))
	}
	if len(fn.Tracks) != c.Cfg.Tracks {
		return fail("C06/track-count/"+c.Path, fmt.Sprintf("--track %d wrote %d track chunks", c.Cfg.Tracks, len(fn.Tracks)))
	}
	if d := diffMerged(merged(f1), merged(fn)); d != "" {
		return fail("C06/merge-differs/"+c.Path, fmt.Sprintf("%s: --track %d differs from --track 1 once merged: %s", c02Durations(c), c.Cfg.Tracks, d))
	}
	if int64(fn.Division) != m.T {
		mm := *m
		mm.T = int64(fn.Division)
		m = &mm
	}
	_, total, amb, err := m.Expect(c.Insts, c.Cfg.Flags, nil)
	if err != nil {
		panic("C06 harness: " + err.Error())
	}
	if len(amb) > 0 {
		panic("C06 harness: alphabet must not contain exactly-halfway durations")
	}
	e.R.State(fmt.Sprintf("N=%d,total=%d", c.Cfg.Tracks, total))
	for ti, tr := range fn.Tracks {
		if got := smf.EndOfTrackTick(tr); got != total {
			return fail("C06/end-of-track/"+c.Path+"/"+c06Shape(c), fmt.Sprintf("%s with --track %d: end-of-track of track %d at tick %d, the piece lasts %d ticks", c02Durations(c), c.Cfg.Tracks, ti, got, total))
		}
	}
	return true
}

func c06Shapes() []refplay.Inst {
	half := []timing.Frac{{Num: 1, Den: 2}}
	return []refplay.Inst{
		{Chord: &refplay.Chord{Degree: iv("1"), Symbol: ""}, Values: one()},
		{Chord: &refplay.Chord{Degree: iv("2"), Symbol: "m9"}, Values: one()},
		{Values: one()},
		{Chord: &refplay.Chord{Degree: iv("5"), Symbol: ""}, Values: one(), BPM: up(140)},
		{Values: one(), Meta: map[string]string{"txt": "hello"}},
		{Chord: &refplay.Chord{Degree: iv("4"), Symbol: ""}, Values: one(), Key: sp("Eb")},
		{Chord: &refplay.Chord{Degree: iv("6"), Symbol: "m"}, Values: half},
	}
}

func c06TrackFlag(e *Env, n int) {
	doc := refplay.YAML([]refplay.Inst{c06Shapes()[0]})
	r := cli.Run(cli.Opt{Stdin: []byte(doc)}, "write", "--track", fmt.Sprint(n))
	e.R.Eval(1)
	if why := failureShape(r); why != "" {
		e.R.Fail(ev.Fail{Class: "C06/bad-track-count-accepted", Msg: fmt.Sprintf("--track %d is not refused cleanly: %s", n, why), Kind: "track-flag", Case: n})
	}
}

func runC06(e *Env) {
	e.R.Rule = "all histories up to the stated length over 7 instance shapes (triad, six-note chord, rest, chord+tempo, rest+text, chord+key, half-beat chord) x every track count N; merged (tick,event) multiset compared with N=1, every end-of-track compared with the exact total; distinct = (history, N); non-trivial = N >= 2 or a trailing rest"
	e.R.Assume("reference: ref/smf decoder, ref/timing totals; merge equality is metamorphic (no expected values)")
	m, err := newModel(e)
	if err != nil {
		panic(err)
	}
	shapes := c06Shapes()
	var hist [][]int
	var gen func(p []int, max int)
	gen = func(p []int, max int) {
		if len(p) > 0 {
			hist = append(hist, append([]int{}, p...))
		}
		if len(p) == max {
			return
		}
		for o := range shapes {
			gen(append(p, o), max)
		}
	}
	maxLen := 4
	if e.Thorough {
		maxLen = 5
	}
	gen(nil, maxLen)
	var ns []int
	for n := 1; n <= 32; n++ {
		ns = append(ns, n)
	}
	type job struct {
		h []int
		n int
	}
	var jobs []job
	for _, h := range hist {
		for _, n := range ns {
			if len(h) == 5 && n > 8 {
				continue // length 5 for N <= 8 only
			}
			jobs = append(jobs, job{h, n})
		}
	}
	// one length beyond for a few N
	base := len(hist)
	hist = nil
	gen(nil, maxLen+1)
	for _, h := range hist[0:] {
		if len(h) != maxLen+1 {
			continue
		}
		for _, n := range []int{1, 2, 3, 4, 7} {
			jobs = append(jobs, job{h, n})
		}
	}
	mc.ParFor(len(jobs), func(i int) {
		j := jobs[i]
		c := playCase{Path: "lib", Cfg: writeCfg{Tracks: j.n}}
		for _, o := range j.h {
			c.Insts = append(c.Insts, shapes[o])
		}
		if !c06Eval(e, m, &c, false) {
			c06Eval(e, m, &c, true)
		}
		e.R.Trace(1)
		e.R.Transition(int64(len(j.h)))
		if j.n >= 2 || j.h[len(j.h)-1] == 2 || j.h[len(j.h)-1] == 4 {
			e.R.NonTrivial(fmt.Sprint(j.h, j.n))
		}
	})
	e.R.AddPart(ev.Part{Name: "histories-x-tracks", Enumerated: fmt.Sprintf("%d histories of length <= %d x N=1..32, plus all histories of length %d x N in {1,2,3,4,7}", base, maxLen, maxLen+1), Executions: int64(len(jobs)), Exhaustive: true})
	e.R.Sample(map[string]any{"history": "[triad][rest+text][six-note chord][rest]", "tracks": 3, "oracle": "merged events equal those of --track 1; all three end-of-track events at tick 3840"})

	// CLI: the real binary for N in {1,2,3,5,32} on histories of length <= 2, and refusal of N in {0,-1}
	var cj []job
	for _, h := range hist {
		if len(h) <= 2 {
			for _, n := range []int{1, 2, 3, 5, 32} {
				cj = append(cj, job{h, n})
			}
		}
	}
	mc.ParFor(len(cj), func(i int) {
		j := cj[i]
		c := playCase{Path: "cli", Cfg: writeCfg{Tracks: j.n}}
		for _, o := range j.h {
			c.Insts = append(c.Insts, shapes[o])
		}
		c06Eval(e, m, &c, true)
		e.R.Trace(1)
	})
	for _, n := range []int{0, -1} {
		c06TrackFlag(e, n)
	}
	e.R.AddPart(ev.Part{Name: "cli-histories", Enumerated: "real binary: histories of length <= 2 x N in {1,2,3,5,32}; --track 0 and -1 must be refused", Executions: int64(len(cj) + 2), Exhaustive: true})

	// chords with more tones than tracks, as many, and fewer: a user dictionary of 1..n-tone chords
	wideFile, wideMax := wideChords(e, m)
	wd, err := refDict(e.RepoDir, nil, []string{wideFile})
	if err != nil {
		panic(err)
	}
	mw := *m
	mw.Dict = wd
	var wjobs []playCase
	for _, n := range []int{1, 2, 3, 15, 16, 17, 31, 32, 33, wideMax} {
		if n > wideMax {
			continue
		}
		for N := 1; N <= 40; N++ {
			c := playCase{Path: "lib", Cfg: writeCfg{Tracks: N, ChordFiles: []string{wideFile}}}
			c.Insts = []refplay.Inst{
				{Chord: &refplay.Chord{Degree: iv("1"), Symbol: fmt.Sprintf("w%d", n)}, Values: one()},
				{Values: one()},
				{Chord: &refplay.Chord{Degree: iv("4"), Symbol: ""}, Values: one()},
				{Chord: &refplay.Chord{Degree: iv("2"), Symbol: fmt.Sprintf("Wide%d", (n+1)/2), Bass: ivp("5")}, Values: []timing.Frac{{Num: 1, Den: 2}}},
			}
			wjobs = append(wjobs, c)
		}
	}
	mc.ParFor(len(wjobs), func(i int) {
		c := wjobs[i]
		c06Eval(e, &mw, &c, true)
		e.R.Trace(1)
		if i%7 == 0 {
			cc := wjobs[i]
			cc.Path = "cli"
			c06Eval(e, &mw, &cc, true)
		}
	})
	e.R.NonTrivialN(int64(len(wjobs)))
	e.R.AddPart(ev.Part{Name: "wide-chords-x-tracks", Enumerated: fmt.Sprintf("user chords of n = 1, 2, 3, 15, 16, 17, 31, 32, 33, %d tones (pairwise different pitches) in the piece [wide(n), rest, triad, wide(n/2)/5] x every track count 1..40: more tones than tracks, as many, fewer; in-process, every 7th through the real binary", wideMax), Executions: int64(len(wjobs)), Exhaustive: true})
	runYAMLForms(e, "C06")
	runLong(e, 16, func(c *playCase) {
		for _, n := range []int{2, 3, 16} {
			cc := *c
			cc.Cfg.Tracks = n
			c06Eval(e, m, &cc, true)
		}
	})
	depth := 5
	if e.Thorough {
		depth = 6
	}
	writerAccounting(e, "C06", true, []int{1, 2, 3, 4}, depth)
}
