#!/usr/bin/env python3
"""Regenerates the seed table of DESIGN.md §10.5 from seeded/*/meta.json."""
import json, os, re
V = os.path.dirname(os.path.dirname(os.path.abspath(__file__)))
rows = []
def key(d):
    m = re.match(r'([A-Za-z]+)(\d*)-?(.*)', d)
    return (not d.startswith('C'), d)
for d in sorted(os.listdir(os.path.join(V, 'seeded')), key=key):
    mj = os.path.join(V, 'seeded', d, 'meta.json')
    if not os.path.exists(mj):
        continue
    m = json.load(open(mj))
    note = m.get('needs_to_manifest', '').split('\n')
    first = ''
    for l in note:
        if l.startswith('PROPERTY'):
            continue
        if l.strip():
            first = l.strip()
            break
    first = first.replace('|', '\\|')[:140]
    res = m.get('check_results_quick', '').replace('|', '\\|')[:160]
    rows.append(f"| {d} | {m.get('breaks_property','')} | {first} | {res} |")
p = os.path.join(V, 'DESIGN.md')
s = open(p).read()
head = "| seed | property | change (first line of the author's note) | quick checks: exit[failure classes] |\n|---|---|---|---|\n"
i = s.index(head) + len(head)
j = s.index("\nThe table is regenerated from", i)
s = s[:i] + "\n".join(rows) + "\n" + s[j:]
open(p, 'w').write(s)
print(len(rows), "rows")
