//go:build verif

package props

import (
	"bytes"
	"encoding/json"
	"fmt"
	"math/big"
	"strings"

	"github.com/berquerant/crd/midix"

	"verif/ev"
	"verif/mc"
	"verif/ref/smf"
)

// Explicit-state accounting on the real midix.MIDIWriter through the VerifState hook.
// State = (writer pending delta, per-track pending delays); one transition per writer call.

type wop struct {
	Kind  string `json:"kind"` // note | rest | tempo | text
	Num   int64  `json:"num"`
	Den   int64  `json:"den"`
	NKeys int    `json:"nkeys,omitempty"`
}

func (o wop) String() string {
	switch o.Kind {
	case "note":
		return fmt.Sprintf("Note(%d/%d,%d keys)", o.Num, o.Den, o.NKeys)
	case "rest":
		return fmt.Sprintf("Rest(%d/%d)", o.Num, o.Den)
	}
	return o.Kind
}

var wopAlphabet = []wop{
	{Kind: "note", Num: 1, Den: 1, NKeys: 1},
	{Kind: "note", Num: 1, Den: 3, NKeys: 3},
	{Kind: "note", Num: 1, Den: 2, NKeys: 5},
	{Kind: "rest", Num: 1, Den: 1},
	{Kind: "rest", Num: 1, Den: 3},
	{Kind: "tempo"},
	{Kind: "text"},
}

func wopTicks(o wop) int64 {
	if o.Kind != "note" && o.Kind != "rest" {
		return 0
	}
	x := new(big.Rat).Mul(big.NewRat(o.Num, o.Den), big.NewRat(960, 1))
	fl := new(big.Int).Quo(x.Num(), x.Denom()).Int64()
	if new(big.Rat).Sub(x, big.NewRat(fl, 1)).Cmp(big.NewRat(1, 2)) >= 0 {
		return fl + 1
	}
	return fl
}

func applyWop(w *midix.MIDIWriter, o wop) {
	switch o.Kind {
	case "note":
		keys := make([]uint8, o.NKeys)
		for i := range keys {
			keys[i] = uint8(60 + 3*i)
		}
		_ = w.Note(float64(o.Num)/float64(o.Den), 64, keys...)
	case "rest":
		w.Rest(float64(o.Num) / float64(o.Den))
	case "tempo":
		w.Tempo(120)
	case "text":
		w.Text("x")
	}
}

type wopsCase struct {
	Tracks int   `json:"tracks"`
	Ops    []wop `json:"ops"`
	Close  bool  `json:"close"`
}

// accountingRun replays ops on a fresh writer. The oracle is observational: after every
// prefix of the calls a *fresh* writer replays the prefix, is closed and written out, and
// the decoded file must show every note-on/off at the tick the calls imply and (C06) every
// track ending at the clock. The hook is used only to name the state (pending delays).
func accountingRun(e *Env, prop string, c wopsCase, report bool) (string, bool) {
	fail := func(class, msg string) (string, bool) {
		if report {
			e.R.Fail(ev.Fail{Class: class, Msg: msg, Kind: "writer-ops", Case: c})
		}
		return "", false
	}
	build := func(n int) (*midix.MIDIWriter, int64, map[int64]map[string]int) {
		set, err := midix.NewTrackSetControllerFromTrackNum(c.Tracks)
		if err != nil {
			panic(err)
		}
		w := midix.NewWriter(960, set, "Piano", 0)
		var clock int64
		want := map[int64]map[string]int{}
		add := func(t int64, k string) {
			if want[t] == nil {
				want[t] = map[string]int{}
			}
			want[t][k]++
		}
		for _, o := range c.Ops[:n] {
			applyWop(w, o)
			if o.Kind == "note" {
				for i := 0; i < o.NKeys; i++ {
					add(clock, fmt.Sprintf("on key%d", 60+3*i))
					add(clock+wopTicks(o), fmt.Sprintf("off key%d", 60+3*i))
				}
			}
			clock += wopTicks(o)
		}
		return w, clock, want
	}
	key := ""
	for n := 1; n <= len(c.Ops); n++ {
		w, clock, want := build(n)
		s := w.VerifState()
		var b strings.Builder
		fmt.Fprintf(&b, "%d|", s.Pending)
		for _, t := range s.Tracks {
			fmt.Fprintf(&b, "%d,", t.Pending)
		}
		key = b.String()
		w.Close()
		var buf bytes.Buffer
		if _, err := w.WriteTo(&buf); err != nil {
			return fail(prop+"/accounting/write-fails", fmt.Sprintf("after %v on %d track(s): %v", c.Ops[:n], c.Tracks, err))
		}
		f, err := smf.Parse(buf.Bytes())
		if err != nil {
			return fail(prop+"/accounting/undecodable", fmt.Sprintf("after %v on %d track(s): %v", c.Ops[:n], c.Tracks, err))
		}
		if got := noteTimeline(f); !sameTimeline(want, got) {
			return fail(prop+"/accounting/clock", fmt.Sprintf("after %v on %d track(s): notes at %s, the calls imply %s", c.Ops[:n], c.Tracks, timelineString(got), timelineString(want)))
		}
		if c.Close {
			for ti, tr := range f.Tracks {
				if eot := smf.EndOfTrackTick(tr); eot != clock {
					cl := prop + "/accounting/close-clock"
					if c.Tracks > 1 {
						cl += "/multi-track"
					}
					return fail(cl, fmt.Sprintf("after %v on %d track(s) and Close: track %d ends at tick %d, the clock stands at %d", c.Ops[:n], c.Tracks, ti, eot, clock))
				}
			}
		}
	}
	return key, true
}

func writerAccounting(e *Env, prop string, withClose bool, tracks []int, depth int) {
	for _, n := range tracks {
		res := mc.BFS(fmt.Sprintf("0|%s", strings.Repeat("0,", n)), len(wopAlphabet), depth, func(path []int, op int) (string, bool) {
			c := wopsCase{Tracks: n, Close: withClose}
			for _, p := range append(append([]int{}, path...), op) {
				c.Ops = append(c.Ops, wopAlphabet[p])
			}
			k, ok := accountingRun(e, prop, c, false)
			e.R.Eval(1)
			e.R.Transition(1)
			if !ok {
				accountingRun(e, prop, c, true)
				return "", false
			}
			e.R.State(fmt.Sprintf("N%d:%s", n, k))
			return k, true
		})
		e.R.AddPart(ev.Part{Name: fmt.Sprintf("writer-accounting-N%d", n), Enumerated: fmt.Sprintf("explicit-state: state = (writer pending, %d per-track pending delays) read through the VerifState hook; 7 writer calls {Note x3, Rest x2, Tempo, Text}; BFS with state hashing to depth %d; in every state a fresh writer replays the prefix, is closed, written and decoded: every note at the tick the calls imply%s", n, depth, map[bool]string{true: "; every track ends at the clock", false: ""}[withClose]), Executions: int64(res.Transitions), States: int64(res.States), Transitions: int64(res.Transitions), Exhaustive: false, Note: "depth-capped (the pending values grow without bound, no fixpoint); state key = pending delays read through the hook: equal vectors have equal futures up to translation in today's implementation; if an implementation kept time differently the key could merge states (less exploration), the oracle itself is observational and cannot raise a false alarm"})
	}
}

func c02Accounting(e *Env) {
	writerAccounting(e, "C02", false, []int{1, 3}, map[bool]int{true: 6, false: 5}[e.Thorough])
}

func c02ReplayOps(e *Env, raw json.RawMessage) {
	accountingRun(e, e.R.Prop, decode[wopsCase](raw), true)
}
