package props

import (
	"encoding/json"
	"fmt"
	"reflect"
	"strings"

	"github.com/berquerant/crd/input"
	"github.com/berquerant/crd/note"
	"github.com/berquerant/crd/op"
	"github.com/berquerant/crd/util"
	"gopkg.in/yaml.v3"

	"verif/cli"
	"verif/ev"
	"verif/mc"
	refplay "verif/ref/play"
	"verif/ref/smf"
	"verif/ref/theory"
	"verif/ref/timing"
)

// C10 — instances YAML is a faithful interchange format between the stages.

// c10Value is one scalar value placed in an instance.
type c10Value struct {
	Field string `json:"field"` // degree | base | key | value | meter | bpm | velocity | meta-value | meta-key
	// the value, in the model's terms
	Num, Den uint64           `json:",omitempty"`
	Interval *theory.Interval `json:"interval,omitempty"`
	Text     string           `json:"text,omitempty"`
}

type c10Pipe struct {
	Chords []c10Chord `json:"chords"`
	Path   string     `json:"path"`
	Text   string     `json:"text,omitempty"`
}

type c10Chord struct {
	Abs  absChord      `json:"chord"`
	Vals []timing.Frac `json:"values"`
	Meta [][2]string   `json:"meta,omitempty"` // written order
}

func init() {
	register(&Prop{ID: "C10", Run: runC10, Replay: map[string]func(*Env, json.RawMessage){
		"value": func(e *Env, raw json.RawMessage) { c10ValueEval(e, decode[c10Value](raw)) },
		"pipeline": func(e *Env, raw json.RawMessage) {
			m, err := newModel(e)
			if err != nil {
				panic(err)
			}
			c := decode[c10Pipe](raw)
			c10PipeEval(e, m, &c)
		},
		"write-conv": func(e *Env, raw json.RawMessage) {
			c := decode[playCase](raw)
			c10WriteConv(e, &c)
		},
	}})
}

var implQuality = map[theory.Quality]note.DegreeName{
	theory.Perfect: note.PerfectDegree, theory.Major: note.MajorDegree, theory.Minor: note.MinorDegree,
	theory.Augmented: note.AugmentedDegree, theory.Diminished: note.DiminishedDegree,
	theory.DoublyAugmented: note.DoublyAugmentedDegree, theory.DoublyDiminished: note.DoublyDiminishedDegree,
}

func implDegreeOf(i theory.Interval) note.Degree {
	return note.Degree{Value: uint(i.Num), Name: implQuality[i.Q]}
}

func implKeyOf(k theory.Key) op.Key {
	acc := op.Natural
	switch k.Tonic.Acc {
	case 1:
		acc = op.Sharp
	case -1:
		acc = op.Flat
	}
	return op.Key{Name: note.NewName(string(theory.Letters[k.Tonic.Letter])), Minor: k.Minor, Accidental: acc}
}

func c10ValueEval(e *Env, v c10Value) {
	e.R.Eval(1)
	fail := func(class, msg string) {
		e.R.Fail(ev.Fail{Class: class, Msg: fmt.Sprintf("%s %s: %s", v.Field, c10ValueString(v), msg), Kind: "value", Case: v})
	}
	defer func() {
		if r := recover(); r != nil {
			fail("C10/value/panic", fmt.Sprint("panic: ", r))
		}
	}()
	in := &input.Instance{Values: []note.Value{{Rat: util.Rat{Num: 1, Denom: 1}}}}
	var want string // expected printed scalar
	var get func(y yInst) (string, bool)
	switch v.Field {
	case "degree":
		in.Chord = &input.Chord{Degree: implDegreeOf(*v.Interval), Chord: "m7"}
		want = v.Interval.Notation()
		get = func(y yInst) (string, bool) {
			if y.Chord == nil {
				return "", false
			}
			return y.Chord.Degree, true
		}
	case "base":
		b := implDegreeOf(*v.Interval)
		in.Chord = &input.Chord{Degree: implDegreeOf(theory.Interval{Num: 1, Q: theory.Perfect}), Chord: "", Base: &b}
		want = v.Interval.Notation()
		get = func(y yInst) (string, bool) {
			if y.Chord == nil || y.Chord.Base == nil {
				return "", false
			}
			return *y.Chord.Base, true
		}
	case "key":
		k, _ := theory.ParseKey(v.Text)
		ik := implKeyOf(k)
		in.Key = &ik
		want = v.Text
		get = func(y yInst) (string, bool) {
			if y.Key == nil {
				return "", false
			}
			return *y.Key, true
		}
	case "value":
		in.Values = []note.Value{{Rat: util.Rat{Num: uint(v.Num), Denom: uint(v.Den)}}}
		want = timing.Frac{Num: v.Num, Den: v.Den}.String()
		get = func(y yInst) (string, bool) {
			if len(y.Values) != 1 {
				return "", false
			}
			return y.Values[0], true
		}
	case "meter":
		mt, merr := op.NewMeter(uint(v.Num), uint(v.Den)) // the constructor text conv uses
		if merr != nil {
			if d := v.Den; v.Num >= 1 && v.Num <= 255 && d >= 1 && d <= 128 && d&(d-1) == 0 {
				fail("C10/value/producer-refuses/meter", "a time signature a MIDI file can state is refused: "+merr.Error())
				return
			}
			// text conv never prints this value: nothing to read back
			e.R.Outcome("meter outside the producer's domain")
			return
		}
		in.Meter = &mt
		want = timing.Frac{Num: v.Num, Den: v.Den}.String()
		get = func(y yInst) (string, bool) {
			if y.Meter == nil {
				return "", false
			}
			return *y.Meter, true
		}
	case "bpm":
		b, berr := op.NewBPM(uint(v.Num)) // the constructor text conv uses
		if berr != nil {
			if v.Num >= 4 && v.Num <= 60000000 {
				fail("C10/value/producer-refuses/bpm", "a tempo a MIDI file can state is refused: "+berr.Error())
				return
			}
			e.R.Outcome("bpm outside the producer's domain")
			return
		}
		in.BPM = &b
		want = fmt.Sprint(v.Num)
		get = func(y yInst) (string, bool) {
			if y.BPM == nil {
				return "", false
			}
			return fmt.Sprint(*y.BPM), true
		}
	case "velocity":
		d := op.NewDynamicSign(v.Text)
		in.Velocity = &d
		want = v.Text
		get = func(y yInst) (string, bool) {
			if y.Velocity == nil {
				return "", false
			}
			return *y.Velocity, true
		}
	case "meta-value":
		in.Meta = op.NewMeta("txt", v.Text)
		want = v.Text
		get = func(y yInst) (string, bool) { s, ok := y.Meta["txt"]; return s, ok }
	case "meta-key":
		in.Meta = op.NewMeta(v.Text, "x")
		want = "x"
		get = func(y yInst) (string, bool) { s, ok := y.Meta[v.Text]; return s, ok }
	default:
		panic("C10 harness: field " + v.Field)
	}
	orig := []*input.Instance{in}
	b, err := yaml.Marshal(orig) // as cmd/text.go does
	if err != nil {
		fail("C10/value/marshal", "cannot be printed: "+err.Error())
		return
	}
	ys, err := readInstances(b)
	if err != nil || len(ys) != 1 {
		if v.Field == "meta-key" && v.Text == "<<" {
			fail("C10/value/meta-key-merge-indicator", fmt.Sprintf("the metadata key << is printed unquoted and read back as a YAML merge key: %v", err))
			return
		}
		fail("C10/value/printed-form/"+v.Field, fmt.Sprintf("printed document is not readable YAML of one instance: %v: %q", err, b))
		return
	}
	got, ok := get(ys[0])
	if !ok || got != want {
		fail("C10/value/printed-form/"+v.Field, fmt.Sprintf("printed as %q (present %v), must read %q; document %q", got, ok, want, b))
		return
	}
	var back []*input.Instance // as cmd/write.go does
	if err := yaml.Unmarshal(b, &back); err != nil {
		fail("C10/value/reread/"+v.Field, fmt.Sprintf("printed form %q is refused on re-reading: %v", got, err))
		return
	}
	if !reflect.DeepEqual(orig, back) {
		fail("C10/value/reread/"+v.Field, fmt.Sprintf("printed form %q re-reads as a different value: %s vs %s", got, mustJSON(back), mustJSON(orig)))
		return
	}
	e.R.Outcome(v.Field + ":" + got)
}

func c10ValueString(v c10Value) string {
	switch {
	case v.Interval != nil:
		return v.Interval.String()
	case v.Den != 0:
		return fmt.Sprintf("%d/%d", v.Num, v.Den)
	case v.Field == "bpm":
		return fmt.Sprint(v.Num)
	}
	return fmt.Sprintf("%q", v.Text)
}

// ---- pipeline: chord text -> text conv -> write, compared with the meaning of the text

func c10Render(c *c10Pipe) (string, []refplay.Inst, bool) {
	var parts []string
	var insts []refplay.Inst
	for _, ch := range c.Chords {
		var vs []string
		for _, v := range ch.Vals {
			vs = append(vs, v.String())
		}
		deg := "R"
		if !ch.Abs.Rest {
			deg = suffixForm(ch.Abs.Root)
			sym := ch.Abs.Symbol
			if sym != "" && sym[0] >= '0' && sym[0] <= '9' {
				sym = "_" + sym
			}
			deg += sym
			if ch.Abs.Bass != "" {
				deg += "/" + suffixForm(ch.Abs.Bass)
			}
		}
		deg += "[" + strings.Join(vs, ",") + "]"
		in := refplay.Inst{Values: ch.Vals}
		if !ch.Abs.Rest {
			in.Chord = &refplay.Chord{Degree: iv(ch.Abs.Root), Symbol: ch.Abs.Symbol}
			if ch.Abs.Bass != "" {
				in.Chord.Bass = ivp(ch.Abs.Bass)
			}
		}
		if len(ch.Meta) > 0 {
			var ms []string
			in.Meta = map[string]string{}
			for _, kv := range ch.Meta {
				ms = append(ms, kv[0]+"="+kv[1])
				in.Meta[kv[0]] = kv[1]
				switch kv[0] {
				case "bpm":
					var b uint64
					fmt.Sscan(kv[1], &b)
					in.BPM = &b
				case "vel":
					in.Vel = sp(kv[1])
				case "key":
					in.Key = sp(kv[1])
				case "mtr":
					var a, b uint64 = 0, 1
					if _, err := fmt.Sscanf(kv[1], "%d/%d", &a, &b); err != nil {
						fmt.Sscan(kv[1], &a)
					}
					in.Meter = &timing.Frac{Num: a, Den: b}
				}
			}
			deg += "{" + strings.Join(ms, ",") + "}"
		}
		parts = append(parts, deg)
		insts = append(insts, in)
	}
	return strings.Join(parts, " "), insts, true
}

func c10PipeEval(e *Env, m *refplay.Model, c *c10Pipe) bool {
	text, insts, _ := c10Render(c)
	c.Text = text
	e.R.Eval(1)
	fail := func(class, msg string) bool {
		e.R.Fail(ev.Fail{Class: class, Msg: fmt.Sprintf("%q (%s): %s", text, c.Path, msg), Kind: "pipeline", Case: c})
		return false
	}
	cv := runConv(c.Path, text, "degree", "")
	if cv.Err != "" {
		return fail("C10/pipeline/conv-refuses", "text conv degree refuses a valid text: "+cv.Err)
	}
	w := runWrite(c.Path, string(cv.Out), writeCfg{})
	if w.Err != "" {
		cl := "C10/pipeline/write-refuses-conv-output"
		if w.Crashed {
			cl = "C10/pipeline/write-crashes-on-conv-output"
		}
		return fail(cl, fmt.Sprintf("crd write refuses what text conv printed: %s; YAML: %q", w.Err, cv.Out))
	}
	f, err := smf.Parse(w.Bytes)
	if err != nil {
		return fail("C10/pipeline/undecodable", err.Error())
	}
	if msg, _ := m.Check(insts, refplay.Flags{}, f); msg != "" {
		return fail("C10/pipeline/meaning-changed", fmt.Sprintf("what is played differs from what was written: %s; YAML between the stages: %q", msg, cv.Out))
	}
	return true
}

// ---- write conv: its output fed to write must sound like its input fed to write, txt aside

func c10WriteConv(e *Env, c *playCase) bool {
	doc := refplay.YAML(c.Insts)
	flags := c.Cfg.Flags.Args()
	e.R.Eval(1)
	fail := func(class, msg string) bool {
		c.fill()
		e.R.Fail(ev.Fail{Class: class, Msg: fmt.Sprintf("%s: %s", c02Durations(c), msg), Kind: "write-conv", Case: c})
		return false
	}
	r := cli.Run(cli.Opt{Stdin: []byte(doc)}, append([]string{"write", "conv", "-c", "cmt"}, flags...)...)
	if !r.OK() {
		return fail("C10/write-conv/fails", "write conv -c cmt fails on a valid document: "+firstLine(r.Stderr))
	}
	a := implWriteCLI(doc, c.Cfg) // the flags resolved by write conv are part of what it prints
	b := implWriteCLI(string(r.Stdout), writeCfg{})
	if !a.OK() {
		return fail("C10/write-conv/harness", "write refuses the original: "+firstLine(a.Stderr))
	}
	if !b.OK() {
		return fail("C10/write-conv/output-refused", fmt.Sprintf("crd write refuses the output of write conv: %s; output %q", firstLine(b.Stderr), r.Stdout))
	}
	fa, ea := smf.Parse(a.Stdout)
	fb, eb := smf.Parse(b.Stdout)
	if ea != nil || eb != nil {
		return fail("C10/write-conv/undecodable", fmt.Sprint(ea, eb))
	}
	strip := func(f *smf.File) map[string]int {
		m := map[string]int{}
		for _, tr := range f.Tracks {
			for _, x := range tr {
				if x.IsMeta(0x01) {
					continue
				}
				m[x.String()]++
			}
		}
		return m
	}
	if d := diffMerged(strip(fa), strip(fb)); d != "" {
		return fail("C10/write-conv/meaning-changed", fmt.Sprintf("the output of write conv sounds different from its input (text events aside): %s; output %q", d, r.Stdout))
	}
	return true
}

func runC10(e *Env) {
	e.R.Rule = "complete value spaces of every scalar field (356 intervals as degree and as base, 28 keys, fractions and meters num,denom in 1..48 plus 32/64-bit boundaries, bpm 1..2000 plus boundaries, 6 dynamics, every string of length <= 3 over a 21-character YAML-hostile alphabet plus YAML look-alikes as metadata values and keys) printed the way text conv does and re-read the way write does and generically; chord texts through conv|write compared with the meaning of the text; write conv output fed back to write. distinct = distinct value or text; non-trivial = every case (each compares a printed form)"
	e.R.Exclude("metadata strings that start with a line break: yaml.v3 itself prints them in literal block style and re-reads them without the leading break (observed with yaml.v3 alone, no crd code involved); chord text cannot produce such a string because the lexer drops leading whitespace")
	e.R.Assume("yaml.v3 is trusted as the generic reader; the model's renderings are the documented ones (interval notation prefix form, n or n/d, key spelling, dynamic name)")
	m, err := newModel(e)
	if err != nil {
		panic(err)
	}
	var vals []c10Value
	for _, i := range theory.IntervalsUpTo(64) {
		i := i
		vals = append(vals, c10Value{Field: "degree", Interval: &i}, c10Value{Field: "base", Interval: &i})
	}
	for _, k := range theory.SupportedKeyNames {
		vals = append(vals, c10Value{Field: "key", Text: k})
	}
	nums := []uint64{}
	for n := uint64(1); n <= 48; n++ {
		nums = append(nums, n)
	}
	nums = append(nums, 1<<32-1, 1<<32, 1<<63, 1<<64-1)
	for _, n := range nums {
		for _, d := range nums {
			vals = append(vals, c10Value{Field: "value", Num: n, Den: d}, c10Value{Field: "meter", Num: n, Den: d})
		}
	}
	for b := uint64(1); b <= 2000; b++ {
		vals = append(vals, c10Value{Field: "bpm", Num: b})
	}
	for _, b := range []uint64{1<<16 - 1, 1 << 16, 1<<32 - 1, 1 << 32, 1<<64 - 1} {
		vals = append(vals, c10Value{Field: "bpm", Num: b})
	}
	for _, d := range refplay.Dynamics {
		vals = append(vals, c10Value{Field: "velocity", Text: d})
	}
	alpha := []string{"a", " ", ":", "#", "-", "\"", "'", "\n", "[", "&", "*", "!", "|", ">", "%", "@", "`", "é", "𝄪", "0", "~"}
	var texts []string
	for _, a := range alpha {
		texts = append(texts, a)
		for _, b := range alpha {
			texts = append(texts, a+b)
			for _, c := range alpha {
				texts = append(texts, a+b+c)
			}
		}
	}
	if e.Thorough {
		for _, a := range alpha {
			for _, b := range alpha {
				for _, c := range alpha {
					for _, d := range alpha {
						texts = append(texts, a+b+c+d)
					}
				}
			}
		}
	}
	texts = append(texts, "null", "true", "no", "1e3", "0x10", "2001-01-01", "- a", "? a", "y", "Off", ".inf", "~", "<<", "=", "\t", "a\tb", "\r", "a\r\nb", " ", "\ufeff", "\x7f", strings.Repeat("x", 200), " lead", "trail ", "a: b # c", "😀", `\U0001F600`, `\\U0001F600`, `"\U0001F600"`, `\u00e9`, `\x41`, `\n`, "\u0085", "\u2028", "\u00a0", "\x1b", "\U0010FFFF")
	for _, t := range texts {
		if t[0] == '\n' || t[0] == '\r' {
			continue // yaml.v3 (trusted base) does not round-trip a string that starts with a line break; chord text cannot produce one
		}
		vals = append(vals, c10Value{Field: "meta-value", Text: t})
		if true {
			vals = append(vals, c10Value{Field: "meta-key", Text: t})
		}
	}
	mc.ParFor(len(vals), func(i int) {
		c10ValueEval(e, vals[i])
		e.R.NonTrivial(fmt.Sprint("v", i))
		e.R.Trace(1)
	})
	e.R.AddPart(ev.Part{Name: "value-spaces", Enumerated: fmt.Sprintf("%d scalar values, each printed via yaml.Marshal of []*input.Instance (cmd/text.go), re-read generically and via yaml.Unmarshal into []*input.Instance (cmd/write.go)", len(vals)), Executions: int64(len(vals)), States: int64(len(vals)), Transitions: int64(2 * len(vals)), Exhaustive: true})
	for i := range vals {
		if i%97 == 0 {
			e.R.State(fmt.Sprint("value-class:", vals[i].Field))
		}
	}
	e.R.Transition(int64(2 * len(vals)))

	// (b) pipeline
	roots := []string{"1", "b2", "2", "b3", "3", "4", "#4", "5", "b5", "#5", "b6", "6", "b7", "7", "9", "b9", "#9", "#11", "b13", "13", "15"}
	syms := []string{"", "m7", "7", "dim7", "sus4", "maj9", "6"}
	bass := []string{"", "3", "5", "b7", "#4"}
	valsets := [][]timing.Frac{{fr(1, 1)}, {fr(1, 2), fr(1, 3)}, {fr(3, 2)}, {fr(7, 11)}}
	metas := [][][2]string{nil, {{"bpm", "140"}}, {{"vel", "ff"}}, {{"mtr", "6/8"}}, {{"key", "F#m"}}, {{"txt", "hello world"}}, {{"lic", "la: la #1"}}, {{"mrk", "é♯"}}, {{"key", "Cb"}, {"bpm", "61"}, {"txt", "- x"}, {"vel", "pp"}, {"mtr", "5/4"}}, {{"foo", "bar"}}, {{"txt", "null"}}, {{"txt", "'q'"}}, {{"txt", "\"dq\""}}, {{"txt", "verse 1: "}}, {{"lic", "la\t"}, {"mrk", "m  "}}, {{"txt", "a  b"}},
		// what a YAML printer escapes, and what merely looks like an escape
		{{"txt", "😀"}}, {{"txt", `\U0001F600`}}, {{"lic", `\\U0001F600`}}, {{"mrk", `"\U0001F600"`}}, {{"txt", `\u00e9 \x41 \n \t \\`}}, {{"txt", "a\u0085b\u2028c"}}, {{"lic", "a\u00a0nbsp"}}, {{"mrk", "e\u0301"}}, {{"txt", "𝄪 𝄫"}}, {{"txt", "\x7f\x1b"}},
		// a value that spans lines (LF, CR LF, CR), a free key next to the documented ones
		// what a careless printer would take for a formatting directive
		{{"txt", "100% sure"}}, {{"lic", "%s %d %v"}, {"mrk", "50%!"}}, {{"txt", "%%"}, {"lic", "%!s(MISSING)"}, {"mrk", "$HOME `x` \\n"}},
		{{"txt", "line 1\nline 2"}}, {{"lic", "a\r\nb"}}, {{"mrk", "x\ry"}}, {{"sec", "A"}, {"txt", "t"}, {"note to self", "x"}}}
	// many entries on one instance, a long key, a long value
	many := [][2]string{}
	for i := 0; i < 20; i++ {
		many = append(many, [2]string{fmt.Sprintf("k%02d", i), fmt.Sprintf("v %d", i)})
	}
	many = append(many[:10:10], append([][2]string{{"txt", "in the middle"}, {"bpm", "77"}, {"lic", "la"}}, many[10:]...)...)
	metas = append(metas, many, [][2]string{{strings.Repeat("k", 300), "x"}, {"txt", strings.Repeat("long ", 60)}, {"mrk", strings.Repeat("é", 130)}})
	var pipes []c10Pipe
	for _, r := range roots {
		for _, s := range syms {
			for _, b := range bass {
				pipes = append(pipes, c10Pipe{Path: "lib", Chords: []c10Chord{{Abs: absChord{Root: r, Symbol: s, Bass: b}, Vals: valsets[0]}}})
			}
		}
	}
	for _, mt := range metas {
		for _, vs := range valsets {
			for _, rest := range []bool{false, true} {
				pipes = append(pipes, c10Pipe{Path: "lib", Chords: []c10Chord{
					{Abs: absChord{Root: "1"}, Vals: valsets[0]},
					{Abs: absChord{Rest: rest, Root: "5", Symbol: "7", Bass: "3"}, Vals: vs, Meta: mt},
					{Abs: absChord{Root: "b6", Symbol: "maj7"}, Vals: valsets[0]},
				}})
			}
		}
	}
	mc.ParFor(len(pipes), func(i int) {
		c := pipes[i]
		c10PipeEval(e, m, &c)
		e.R.Trace(1)
		e.R.NonTrivial(fmt.Sprint("p", i))
		if e.Thorough || i%2 == 0 {
			cc := pipes[i]
			cc.Path = "cli"
			c10PipeEval(e, m, &cc)
		}
	})
	e.R.AddPart(ev.Part{Name: "text-conv-write-pipeline", Enumerated: "21 roots (every alteration chord text can express, incl. compound ones) x 7 symbols x 5 basses single chords; 13 metadata sets x 4 duration lists x {chord, rest} carried by the middle instance of a 3-instance text; text conv degree | write, decoded and compared with ref/play's meaning of the text; real binary for every 5th (quick) / all (thorough)", Executions: int64(len(pipes)), Exhaustive: true})

	// (c) write conv
	shapes := c06Shapes()
	extra := refplay.Inst{Chord: &refplay.Chord{Degree: iv("b3"), Symbol: "m7b5", Bass: ivp("b7")}, Values: one(), Meta: map[string]string{"txt": "old", "lic": "keep"}}
	shapes = append(shapes, extra)
	var wc []playCase
	for i := range shapes {
		wc = append(wc, playCase{Path: "cli", Insts: []refplay.Inst{shapes[i]}})
		for j := range shapes {
			wc = append(wc, playCase{Path: "cli", Insts: []refplay.Inst{shapes[i], shapes[j]}})
		}
	}
	fk, fv := "A", "ff"
	for i := range shapes {
		for _, fl := range []refplay.Flags{{BPM: up(77)}, {Key: &fk}, {Vel: &fv, Meter: &timing.Frac{Num: 7, Den: 8}}, {BPM: up(61), Key: &fk, Vel: &fv}} {
			wc = append(wc, playCase{Path: "cli", Insts: []refplay.Inst{shapes[i], shapes[(i+1)%len(shapes)]}, Cfg: writeCfg{Flags: fl}})
		}
	}
	// settings that change and later return - also to the value that happens to be the default
	// (100 bpm, 4/4, C, and each dynamic in turn): every settings history of length <= 3 over
	// {absent, default value, other value} per setting, one setting at a time, plus the long documents
	ch := refplay.Inst{Chord: &refplay.Chord{Degree: iv("5"), Symbol: "7"}, Values: one()}
	withSet := func(kind, val int) refplay.Inst {
		in := ch
		switch kind {
		case 0:
			if val > 0 {
				in.BPM = up([]uint64{0, 100, 140}[val])
			}
		case 1:
			if val > 0 {
				in.Meter = &timing.Frac{Num: []uint64{0, 4, 3}[val], Den: 4}
			}
		case 2:
			if val > 0 {
				in.Key = sp([]string{"", "C", "Eb"}[val])
			}
		default:
			if val > 0 {
				in.Vel = sp(refplay.Dynamics[(kind-3+val-1)%len(refplay.Dynamics)])
			}
		}
		return in
	}
	for kind := 0; kind < 3+len(refplay.Dynamics); kind++ {
		for h := 0; h < 27; h++ {
			c := playCase{Path: "cli"}
			for i, x := 0, h; i < 3; i, x = i+1, x/3 {
				c.Insts = append(c.Insts, withSet(kind, x%3))
			}
			c.Insts = append(c.Insts, ch)
			wc = append(wc, c)
		}
	}
	for _, c := range longDocs(130, []int{0, 1, 64, 129}, nil) {
		c.Path = "cli"
		wc = append(wc, c)
	}
	mc.ParFor(len(wc), func(i int) {
		c := wc[i]
		c10WriteConv(e, &c)
		e.R.Trace(1)
		e.R.NonTrivial(fmt.Sprint("w", i))
	})
	e.R.AddPart(ev.Part{Name: "write-conv-roundtrip", Enumerated: "real binary: all documents of length <= 2 over 8 instance shapes: `write conv -c cmt` | `write` vs `write`, decoded, text events aside; every history of length 3 over {absent, the default value, another value} for bpm, meter, key and each dynamic; long documents (130 instances, one deviation at 0, 1, 64, 129); and with 4 flag sets: `write conv FLAGS` | `write` vs `write FLAGS`", Executions: int64(len(wc)), Exhaustive: true})
	e.R.Sample(map[string]any{"field": "meta-value", "text": "a: b # c"})
	e.R.Sample(map[string]any{"pipeline": "1[1] 5_7/3[1/2,1/3]{key=Cb,bpm=61,txt=- x,vel=pp,mtr=5/4} 6bmaj7[1]"})
}
