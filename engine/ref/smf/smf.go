// Package smf is a strict Standard MIDI File reader written from the SMF 1.0 text.
// It shares no code with the writer under test (no gomidi).
package smf

import (
	"encoding/binary"
	"fmt"
)

// Event is one track event at an absolute tick.
type Event struct {
	Tick   int64  `json:"tick"`
	Status byte   `json:"status"`         // 0x8n..0xEn channel message, 0xFF meta, 0xF0/0xF7 sysex
	Meta   byte   `json:"meta,omitempty"` // meta type when Status == 0xFF
	Data   []byte `json:"data"`
}

func (e Event) IsNoteOn() bool { return e.Status&0xF0 == 0x90 && e.Data[1] > 0 }
func (e Event) IsNoteOff() bool {
	return e.Status&0xF0 == 0x80 || e.Status&0xF0 == 0x90 && e.Data[1] == 0
}
func (e Event) IsMeta(t byte) bool {
	return e.Status == 0xFF && e.Meta == t
}
func (e Event) Channel() int { return int(e.Status & 0x0F) }
func (e Event) Key() int     { return int(e.Data[0]) }

// String is a compact, canonical rendering used for multiset comparison.
func (e Event) String() string {
	if e.Status == 0xFF {
		return fmt.Sprintf("@%d meta %02x %x", e.Tick, e.Meta, e.Data)
	}
	return fmt.Sprintf("@%d %02x %x", e.Tick, e.Status, e.Data)
}

// Canon renders the event without its tick, note-offs normalised (0x9n vel 0 = 0x8n,
// release velocity ignored).
func (e Event) Canon() string {
	if e.Status == 0xFF {
		return fmt.Sprintf("meta %02x %x", e.Meta, e.Data)
	}
	if e.IsNoteOff() {
		return fmt.Sprintf("off ch%d key%d", e.Channel(), e.Key())
	}
	if e.IsNoteOn() {
		return fmt.Sprintf("on ch%d key%d vel%d", e.Channel(), e.Key(), e.Data[1])
	}
	return fmt.Sprintf("%02x %x", e.Status, e.Data)
}

// File is a decoded SMF.
type File struct {
	Format   int
	NTracks  int
	Division int // ticks per quarter note (metrical time only)
	Tracks   [][]Event
}

type reader struct {
	b   []byte
	pos int
}

func (r *reader) need(n int) error {
	if r.pos+n > len(r.b) {
		return fmt.Errorf("unexpected end of data at offset %d (need %d bytes)", r.pos, n)
	}
	return nil
}

func (r *reader) vlq() (uint32, error) {
	var v uint32
	for i := 0; i < 4; i++ {
		if err := r.need(1); err != nil {
			return 0, err
		}
		c := r.b[r.pos]
		r.pos++
		v = v<<7 | uint32(c&0x7F)
		if c&0x80 == 0 {
			return v, nil
		}
	}
	return 0, fmt.Errorf("variable-length quantity longer than 4 bytes at offset %d", r.pos-4)
}

// Parse decodes b strictly; any deviation from the specification is an error.
func Parse(b []byte) (*File, error) {
	if len(b) < 14 {
		return nil, fmt.Errorf("file too short for a header: %d bytes", len(b))
	}
	if string(b[0:4]) != "MThd" {
		return nil, fmt.Errorf("no MThd header")
	}
	if n := binary.BigEndian.Uint32(b[4:8]); n != 6 {
		return nil, fmt.Errorf("header length %d, want 6", n)
	}
	f := &File{
		Format:  int(binary.BigEndian.Uint16(b[8:10])),
		NTracks: int(binary.BigEndian.Uint16(b[10:12])),
	}
	div := binary.BigEndian.Uint16(b[12:14])
	if div&0x8000 != 0 {
		return nil, fmt.Errorf("SMPTE division %#x not expected", div)
	}
	f.Division = int(div)
	if f.Division == 0 {
		return nil, fmt.Errorf("division 0")
	}
	if f.Format > 2 {
		return nil, fmt.Errorf("format %d", f.Format)
	}
	if f.NTracks == 0 {
		return nil, fmt.Errorf("header declares 0 tracks")
	}
	if f.Format == 0 && f.NTracks != 1 {
		return nil, fmt.Errorf("format 0 with %d tracks", f.NTracks)
	}
	pos := 14
	for t := 0; t < f.NTracks; t++ {
		if pos+8 > len(b) {
			return nil, fmt.Errorf("track %d: chunk header missing (file has %d bytes, header declares %d tracks)", t, len(b), f.NTracks)
		}
		if string(b[pos:pos+4]) != "MTrk" {
			return nil, fmt.Errorf("track %d: chunk type %q", t, b[pos:pos+4])
		}
		n := int(binary.BigEndian.Uint32(b[pos+4 : pos+8]))
		pos += 8
		if pos+n > len(b) {
			return nil, fmt.Errorf("track %d: chunk length %d exceeds file", t, n)
		}
		evs, err := parseTrack(b[pos : pos+n])
		if err != nil {
			return nil, fmt.Errorf("track %d: %w", t, err)
		}
		f.Tracks = append(f.Tracks, evs)
		pos += n
	}
	if pos != len(b) {
		return nil, fmt.Errorf("%d bytes after the last declared chunk", len(b)-pos)
	}
	return f, nil
}

var metaLen = map[byte]int{0x2F: 0, 0x51: 3, 0x58: 4, 0x59: 2, 0x20: 1, 0x54: 5, 0x21: 1}

func parseTrack(b []byte) ([]Event, error) {
	r := &reader{b: b}
	var (
		evs     []Event
		tick    int64
		running byte
		ended   bool
	)
	for r.pos < len(b) {
		if ended {
			return nil, fmt.Errorf("event after end-of-track at offset %d", r.pos)
		}
		d, err := r.vlq()
		if err != nil {
			return nil, err
		}
		tick += int64(d)
		if err := r.need(1); err != nil {
			return nil, err
		}
		st := r.b[r.pos]
		if st&0x80 != 0 {
			r.pos++
		} else {
			if running == 0 {
				return nil, fmt.Errorf("data byte %#x without running status at offset %d", st, r.pos)
			}
			st = running
		}
		switch {
		case st == 0xFF:
			running = 0
			if err := r.need(1); err != nil {
				return nil, err
			}
			mt := r.b[r.pos]
			r.pos++
			if mt >= 0x80 {
				return nil, fmt.Errorf("meta type %#x", mt)
			}
			n, err := r.vlq()
			if err != nil {
				return nil, err
			}
			if err := r.need(int(n)); err != nil {
				return nil, fmt.Errorf("meta %#x: %w", mt, err)
			}
			if want, ok := metaLen[mt]; ok && want != int(n) {
				return nil, fmt.Errorf("meta %#x with length %d, want %d", mt, n, want)
			}
			data := append([]byte{}, r.b[r.pos:r.pos+int(n)]...)
			r.pos += int(n)
			if mt == 0x59 {
				if sf := int8(data[0]); sf < -7 || sf > 7 || data[1] > 1 {
					return nil, fmt.Errorf("key signature sf=%d mi=%d out of range", sf, data[1])
				}
			}
			if mt == 0x2F {
				ended = true
			}
			evs = append(evs, Event{Tick: tick, Status: 0xFF, Meta: mt, Data: data})
		case st == 0xF0 || st == 0xF7:
			running = 0
			n, err := r.vlq()
			if err != nil {
				return nil, err
			}
			if err := r.need(int(n)); err != nil {
				return nil, err
			}
			evs = append(evs, Event{Tick: tick, Status: st, Data: append([]byte{}, r.b[r.pos:r.pos+int(n)]...)})
			r.pos += int(n)
		case st >= 0xF0:
			return nil, fmt.Errorf("system message %#x in a file at offset %d", st, r.pos)
		default:
			running = st
			n := 2
			if st&0xF0 == 0xC0 || st&0xF0 == 0xD0 {
				n = 1
			}
			if err := r.need(n); err != nil {
				return nil, err
			}
			data := append([]byte{}, r.b[r.pos:r.pos+n]...)
			for _, x := range data {
				if x >= 0x80 {
					return nil, fmt.Errorf("data byte %#x >= 0x80 in message %#x at offset %d", x, st, r.pos)
				}
			}
			r.pos += n
			evs = append(evs, Event{Tick: tick, Status: st, Data: data})
		}
	}
	if !ended {
		return nil, fmt.Errorf("track does not end with end-of-track")
	}
	return evs, nil
}

// EndOfTrackTick is the tick of the (single, last) end-of-track event.
func EndOfTrackTick(evs []Event) int64 { return evs[len(evs)-1].Tick }

// CheckNotes verifies per (channel, key) that every note-on is closed by a note-off, no
// note-off precedes its note-on and nothing is left sounding. File order is used, merged
// over all tracks by tick with offs before ons at equal ticks only across tracks.
func CheckNotes(f *File) error {
	type ck struct{ ch, key int }
	for ti, tr := range f.Tracks {
		open := map[ck]int{}
		for _, e := range tr {
			switch {
			case e.IsNoteOn():
				open[ck{e.Channel(), e.Key()}]++
			case e.IsNoteOff():
				k := ck{e.Channel(), e.Key()}
				if open[k] == 0 {
					return fmt.Errorf("track %d: note-off for key %d at tick %d without a sounding note-on", ti, e.Key(), e.Tick)
				}
				open[k]--
			}
		}
		for k, n := range open {
			if n != 0 {
				return fmt.Errorf("track %d: key %d left sounding (%d unmatched note-on)", ti, k.key, n)
			}
		}
	}
	return nil
}
