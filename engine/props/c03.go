package props

import (
	"bytes"
	"encoding/json"
	"fmt"
	"reflect"
	"strings"

	"verif/ev"
	"verif/mc"
	"verif/ref/theory"
)

// C03 — text conv syllable: note names map to the right interval in every key.
// The whole space of the quantifier: 28 keys x 21 roots x (no bass + 21 basses) = 12 936.

type c03Case struct {
	Key  string `json:"key"`
	Root string `json:"root"`
	Bass string `json:"bass,omitempty"`
	Path string `json:"path"`
	// Unicode: the accidentals are written ♯ / ♭ (the lexer accepts both spellings)
	Unicode bool `json:"unicode_accidentals,omitempty"`
}

func (c c03Case) text() string {
	s := c.Root
	if c.Bass != "" {
		s += "/" + c.Bass
	}
	if c.Unicode {
		s = strings.NewReplacer("#", "♯", "b", "♭").Replace(s)
	}
	return s + "[1]"
}

func init() {
	register(&Prop{ID: "C03", Run: runC03, Replay: map[string]func(*Env, json.RawMessage){
		"syllable": func(e *Env, raw json.RawMessage) { c03One(e, decode[c03Case](raw)) },
	}})
}

func inScale(k theory.Key, n theory.Note) (int, bool) {
	for i, s := range k.Scale() {
		if s == n {
			return i, true
		}
	}
	return -1, false
}

// c03Judge applies the oracle to one (key, root, bass) given the command's outcome.
func c03Judge(e *Env, c c03Case, ok bool, errMsg, degree string, base *string) bool {
	fail := func(class, msg string) bool {
		e.R.Fail(ev.Fail{Class: class, Msg: fmt.Sprintf("%s in key %s (%s): %s", c.text(), c.Key, c.Path, msg), Kind: "syllable", Case: c})
		return false
	}
	k, _ := theory.ParseKey(c.Key)
	root, _ := theory.ParseNote(c.Root)
	var bass theory.Note
	hasBass := c.Bass != ""
	if hasBass {
		bass, _ = theory.ParseNote(c.Bass)
	}
	ri, rootIn := inScale(k, root)
	_, bassIn := inScale(k, bass)
	if !ok {
		if rootIn && (!hasBass || bassIn) {
			return fail("C03/scale-note-refused", "a note of the key's own scale is refused: "+errMsg)
		}
		e.R.Outcome("refused")
		return true // a note the notation cannot express may be refused
	}
	d, okd := theory.ParseNotation(degree)
	if !okd || !d.Exists() {
		return fail("C03/degree-unreadable", fmt.Sprintf("emitted degree %q is no interval", degree))
	}
	if want := theory.LetterDistance(k.Tonic, root); d.Num != want {
		return fail("C03/degree-number", fmt.Sprintf("emitted degree %s has number %d, the letter distance from the tonic is %d", degree, d.Num, want))
	}
	if got, want := ((d.MustSize()%12)+12)%12, theory.PitchDistance(k.Tonic, root); got != want {
		return fail("C03/degree-size", fmt.Sprintf("emitted degree %s measures %d semitones (mod 12), the written note is %d above the tonic", degree, got, want))
	}
	if rootIn {
		// the scale's own degree
		q := []theory.Quality{theory.Perfect, theory.Major, theory.Major, theory.Perfect, theory.Perfect, theory.Major, theory.Major}
		if k.Minor {
			q = []theory.Quality{theory.Perfect, theory.Major, theory.Minor, theory.Perfect, theory.Perfect, theory.Minor, theory.Minor}
		}
		if want := (theory.Interval{Num: ri + 1, Q: q[ri]}); d != want {
			return fail("C03/scale-degree", fmt.Sprintf("scale note mapped to %s, the scale's own degree is %s", degree, want.Notation()))
		}
	}
	if !hasBass {
		if base != nil {
			return fail("C03/spurious-base", fmt.Sprintf("a base %q appears although none was written", *base))
		}
		e.R.Outcome(degree)
		return true
	}
	if base == nil {
		return fail("C03/base-dropped", "the written bass note is missing from the output")
	}
	b, okb := theory.ParseNotation(*base)
	if !okb || !b.Exists() {
		return fail("C03/base-unreadable", fmt.Sprintf("emitted base %q is no interval", *base))
	}
	if want := theory.LetterDistance(root, bass); b.Num != want {
		return fail("C03/base-number", fmt.Sprintf("emitted base %s has number %d, the letter distance from the root is %d", *base, b.Num, want))
	}
	if got, want := ((b.MustSize()%12)+12)%12, theory.PitchDistance(root, bass); got != want {
		return fail("C03/base-size", fmt.Sprintf("emitted base %s measures %d semitones (mod 12), the written bass is %d above the root", *base, got, want))
	}
	e.R.Outcome(degree + "/" + *base)
	return true
}

func c03One(e *Env, c c03Case) (accepted bool, out []byte) {
	e.R.Eval(1)
	r := runConv(c.Path, c.text(), "syllable", c.Key)
	fail := func(class, msg string) {
		e.R.Fail(ev.Fail{Class: class, Msg: fmt.Sprintf("%s in key %s (%s): %s", c.text(), c.Key, c.Path, msg), Kind: "syllable", Case: c})
	}
	if r.Hang || r.Crashed {
		fail("C03/crash-or-hang", r.Err)
		return false, nil
	}
	if r.Err != "" {
		if c.Path == "cli" && r.Shape != "" {
			fail("C03/rejection-shape", "refusal is not clean: "+r.Shape)
		}
		c03Judge(e, c, false, r.Err, "", nil)
		return false, nil
	}
	ins, err := readInstances(r.Out)
	if err != nil || len(ins) != 1 || ins[0].Chord == nil {
		fail("C03/output", fmt.Sprintf("output is not one chord instance: %q", firstLine(r.Out)))
		return true, r.Out
	}
	c03Judge(e, c, true, "", ins[0].Chord.Degree, ins[0].Chord.Base)
	return true, r.Out
}

func runC03(e *Env) {
	e.R.Rule = "the whole space of the quantifier: 28 keys x 21 root spellings x (no bass + 21 bass spellings) = 12 936 single chords, in-process and through the real binary; non-trivial = the command succeeded and number and size of the emitted degree(s) were compared with letter and pitch distance"
	e.R.Assume("reference: letter distance and pitch distance from ref/theory, scale membership from the line of fifths (not from op.NewScale); a refusal of a note outside the key's scale is allowed by the statement")
	keys := theory.SupportedKeys()
	notes := noteSpellings()
	var cases []c03Case
	for _, k := range keys {
		for _, r := range notes {
			cases = append(cases, c03Case{Key: k.String(), Root: r.String(), Path: "lib"})
			for _, b := range notes {
				cases = append(cases, c03Case{Key: k.String(), Root: r.String(), Bass: b.String(), Path: "lib"})
			}
		}
	}
	// the same space once more with the accidentals spelled ♯ / ♭ (verdict and degrees judged alike)
	nASCII := len(cases)
	for i := 0; i < nASCII; i++ {
		if c := cases[i]; strings.ContainsAny(c.Root+c.Bass, "#b") {
			c.Unicode = true
			cases = append(cases, c)
		}
	}
	accepted := make([]bool, len(cases))
	outs := make([][]byte, len(cases))
	mc.ParFor(len(cases), func(i int) {
		accepted[i], outs[i] = c03One(e, cases[i])
		e.R.Transition(1)
		e.R.State("scale:" + cases[i].Key)
		if accepted[i] {
			e.R.NonTrivial(cases[i].Key + cases[i].text())
			e.R.Trace(1)
		}
	})
	nAcc := 0
	for _, a := range accepted {
		if a {
			nAcc++
		}
	}
	e.R.AddPart(ev.Part{Name: "all-chords-in-process", Enumerated: "28 converter-scale states x 462 (root, bass) operations, complete; every chord with an accidental also with the accidentals spelled ♯ / ♭", Executions: int64(len(cases)), States: 28, Transitions: int64(len(cases)), Exhaustive: true, Note: fmt.Sprintf("%d accepted, %d refused", nAcc, len(cases)-nAcc)})

	// CLI: accepted chords batched per key (byte-identical to the concatenated in-process answers), refused ones one per run
	type batch struct {
		key  string
		idx  []int
		text string
	}
	var batches []batch
	var refused []int
	cur := map[string]*batch{}
	for i, c := range cases {
		if !accepted[i] {
			refused = append(refused, i)
			continue
		}
		b := cur[c.Key]
		if b == nil {
			b = &batch{key: c.Key}
			cur[c.Key] = b
		}
		b.idx = append(b.idx, i)
		b.text += c.text() + "\n"
	}
	for _, k := range keys {
		if b := cur[k.String()]; b != nil {
			batches = append(batches, *b)
		}
	}
	mc.ParFor(len(batches), func(i int) {
		b := batches[i]
		r := runConv("cli", b.text, "syllable", b.key)
		e.R.Eval(1)
		var want bytes.Buffer
		for _, j := range b.idx {
			want.Write(outs[j])
		}
		if r.Err != "" || !bytes.Equal(r.Out, want.Bytes()) {
			// locate the first chord on which the binary differs
			for _, j := range b.idx {
				c := cases[j]
				c.Path = "cli"
				c03One(e, c)
			}
			if r.Err == "" {
				// other bytes may be another YAML style of the same answers: compare what the documents say
				got, gerr := readInstances(r.Out)
				wantI, werr := readInstances(want.Bytes())
				if gerr != nil || werr != nil || !reflect.DeepEqual(got, wantI) {
					e.R.Fail(ev.Fail{Class: "C03/cli-differs-from-library", Msg: fmt.Sprintf("key %s: `crd text conv syllable` on the %d accepted chords answers something else than the library composition (%v)", b.key, len(b.idx), gerr), Kind: "syllable", Case: c03Case{Key: b.key, Root: "C", Path: "cli"}})
				}
			}
			return
		}
		// same bytes as the in-process answers that were judged above
		e.R.Trace(int64(len(b.idx)))
	})
	step := 1
	var nref int
	var sub []int
	for n, j := range refused {
		if n%step == 0 {
			sub = append(sub, j)
		}
	}
	mc.ParFor(len(sub), func(i int) {
		c := cases[sub[i]]
		c.Path = "cli"
		if ok, _ := c03One(e, c); ok {
			e.R.Fail(ev.Fail{Class: "C03/cli-differs-from-library", Msg: fmt.Sprintf("%s in key %s: refused in-process, accepted by the binary", c.text(), c.Key), Kind: "syllable", Case: c})
		}
	})
	nref = len(sub)
	e.R.AddPart(ev.Part{Name: "all-chords-cli", Enumerated: fmt.Sprintf("real binary: the accepted chords batched per key (28 runs, output byte-compared with the judged in-process answers), refused chords one per run (every %d-th in quick: %d runs) with the failure shape checked", step, nref), Executions: int64(nAcc + nref), Exhaustive: step == 1})
	e.R.Sample(map[string]any{"key": "Ebm", "text": "Cb/Gb[1]", "oracle": "degree number 6 (Eb->Cb), 8 semitones -> b6; base number 5 (Cb->Gb), 7 semitones -> 5"})
	_ = strings.Join
}
