// Package timing does exact rational arithmetic for durations.
package timing

import (
	"fmt"
	"math/big"
)

// Frac is a written duration fraction num/den.
type Frac struct {
	Num uint64 `json:"num"`
	Den uint64 `json:"den"`
}

func (f Frac) String() string {
	if f.Den == 1 {
		return fmt.Sprint(f.Num)
	}
	return fmt.Sprintf("%d/%d", f.Num, f.Den)
}

// Ticks returns the acceptable lengths in ticks of an instance with the given fractions at
// T ticks per quarter: round(T * sum), either neighbour when exactly halfway.
func Ticks(T int64, vals []Frac) (lo, hi int64) {
	sum := new(big.Rat)
	for _, v := range vals {
		sum.Add(sum, new(big.Rat).SetFrac(new(big.Int).SetUint64(v.Num), new(big.Int).SetUint64(v.Den)))
	}
	x := new(big.Rat).Mul(sum, big.NewRat(T, 1))
	fl := new(big.Int).Quo(x.Num(), x.Denom()) // x >= 0, so Quo is floor
	fr := new(big.Rat).Sub(x, new(big.Rat).SetInt(fl))
	switch fr.Cmp(big.NewRat(1, 2)) {
	case -1:
		return fl.Int64(), fl.Int64()
	case 1:
		return fl.Int64() + 1, fl.Int64() + 1
	}
	return fl.Int64(), fl.Int64() + 1
}
