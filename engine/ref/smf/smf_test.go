package smf

import (
	"strings"
	"testing"
)

func hdr(format, ntrks byte) []byte {
	return []byte{'M', 'T', 'h', 'd', 0, 0, 0, 6, 0, format, 0, ntrks, 0x03, 0xC0}
}

func trk(b ...byte) []byte {
	return append([]byte{'M', 'T', 'r', 'k', 0, 0, 0, byte(len(b))}, b...)
}

func TestParse(t *testing.T) {
	good := append(hdr(0, 1), trk(0x00, 0x90, 60, 64, 0x87, 0x40, 0x80, 60, 0, 0x00, 0xFF, 0x2F, 0x00)...)
	f, err := Parse(good)
	if err != nil {
		t.Fatal(err)
	}
	if f.Division != 960 || len(f.Tracks) != 1 || len(f.Tracks[0]) != 3 || f.Tracks[0][1].Tick != 960 || !f.Tracks[0][1].IsNoteOff() {
		t.Fatalf("decoded %+v", f)
	}
	if err := CheckNotes(f); err != nil {
		t.Fatal(err)
	}
	// running status and note-on velocity 0 as note-off
	rs := append(hdr(0, 1), trk(0x00, 0x90, 60, 64, 0x10, 60, 0, 0x00, 0xFF, 0x2F, 0x00)...)
	if f, err := Parse(rs); err != nil || !f.Tracks[0][1].IsNoteOff() {
		t.Fatalf("running status: %v", err)
	}
	bad := map[string][]byte{
		"5-byte delta":          append(hdr(0, 1), trk(0x81, 0x80, 0x80, 0x80, 0x00, 0x90, 60, 64, 0x00, 0xFF, 0x2F, 0x00)...),
		"data byte >= 0x80":     append(hdr(0, 1), trk(0x00, 0xC0, 0xC8, 0x00, 0xFF, 0x2F, 0x00)...),
		"no end-of-track":       append(hdr(0, 1), trk(0x00, 0x90, 60, 64)...),
		"event after eot":       append(hdr(0, 1), trk(0x00, 0xFF, 0x2F, 0x00, 0x00, 0x90, 60, 64)...),
		"format 0, two tracks":  append(append(hdr(0, 2), trk(0x00, 0xFF, 0x2F, 0x00)...), trk(0x00, 0xFF, 0x2F, 0x00)...),
		"missing chunk":         append(hdr(1, 2), trk(0x00, 0xFF, 0x2F, 0x00)...),
		"trailing bytes":        append(append(hdr(0, 1), trk(0x00, 0xFF, 0x2F, 0x00)...), 0),
		"tempo of 2 bytes":      append(hdr(0, 1), trk(0x00, 0xFF, 0x51, 0x02, 0xEA, 0x60, 0x00, 0xFF, 0x2F, 0x00)...),
		"chunk longer than file": append(hdr(0, 1), []byte{'M', 'T', 'r', 'k', 0, 0, 0, 99, 0x00, 0xFF, 0x2F, 0x00}...),
	}
	for name, b := range bad {
		if _, err := Parse(b); err == nil {
			t.Errorf("%s accepted", name)
		}
	}
	hang := append(hdr(0, 1), trk(0x00, 0x90, 60, 64, 0x00, 0xFF, 0x2F, 0x00)...)
	f, _ = Parse(hang)
	if err := CheckNotes(f); err == nil || !strings.Contains(err.Error(), "left sounding") {
		t.Errorf("hanging note: %v", err)
	}
}
