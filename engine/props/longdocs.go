package props

import (
	"fmt"

	"verif/ev"
	"verif/mc"
	refplay "verif/ref/play"
	"verif/ref/timing"
)

// Long documents: what short histories cannot reach is anything that counts — the 100th
// instance, the 128th event, a clock past 2^14 / 2^16 / 2^21 ticks, a key change long after
// the previous one. A long document is a periodic base pattern with exactly one deviation
// (one instance replaced by a variant of itself) at one position; all positions are
// enumerated. The oracles are those of the property the documents are given to.

var longKinds = []string{"none", "key", "key-same", "bpm", "meter", "vel", "txt", "long-rest", "tiny", "symbol", "degree", "bass", "two-values", "to-rest", "to-chord"}

func longBase(i int) refplay.Inst {
	switch i % 5 {
	case 0:
		return refplay.Inst{Chord: &refplay.Chord{Degree: iv("1"), Symbol: ""}, Values: one()}
	case 1:
		return refplay.Inst{Chord: &refplay.Chord{Degree: iv("5"), Symbol: "7", Bass: ivp("3")}, Values: []timing.Frac{{Num: 1, Den: 2}}}
	case 2:
		return refplay.Inst{Values: []timing.Frac{{Num: 1, Den: 4}}}
	case 3:
		return refplay.Inst{Chord: &refplay.Chord{Degree: iv("2"), Symbol: "m9"}, Values: []timing.Frac{{Num: 1, Den: 3}}}
	}
	return refplay.Inst{Chord: &refplay.Chord{Degree: iv("4"), Symbol: ""}, Values: []timing.Frac{{Num: 3, Den: 8}}}
}

func longDeviate(in refplay.Inst, kind string) refplay.Inst {
	switch kind {
	case "key":
		in.Key = sp("F#m")
	case "key-same":
		in.Key = sp("C")
	case "bpm":
		in.BPM = up(77)
	case "meter":
		in.Meter = &timing.Frac{Num: 7, Den: 8}
	case "vel":
		in.Vel = sp("pp")
	case "txt":
		in.Meta = map[string]string{"txt": "x é"}
	case "long-rest":
		in.Chord = nil
		in.Values = []timing.Frac{{Num: 700, Den: 1}}
	case "tiny":
		in.Values = []timing.Frac{{Num: 1, Den: 64}}
	case "symbol":
		if in.Chord == nil {
			in.Chord = &refplay.Chord{Degree: iv("1")}
		}
		c := *in.Chord
		c.Symbol = "dim7"
		in.Chord = &c
	case "degree":
		if in.Chord == nil {
			in.Chord = &refplay.Chord{Degree: iv("1")}
		}
		c := *in.Chord
		c.Degree = iv("b7")
		in.Chord = &c
	case "bass":
		if in.Chord == nil {
			in.Chord = &refplay.Chord{Degree: iv("1")}
		}
		c := *in.Chord
		c.Bass = ivp("b5")
		in.Chord = &c
	case "two-values":
		in.Values = []timing.Frac{{Num: 1, Den: 1}, {Num: 1, Den: 8}}
	case "to-rest":
		in.Chord = nil
	case "to-chord":
		in.Chord = &refplay.Chord{Degree: iv("6"), Symbol: "m"}
	}
	return in
}

// longDocs lists every (kind, position) one-deviation document of length n over the base
// pattern; positions nil = all.
func longDocs(n int, positions []int, kinds []string) []playCase {
	if positions == nil {
		for p := 0; p < n; p++ {
			positions = append(positions, p)
		}
	}
	if kinds == nil {
		kinds = longKinds
	}
	var r []playCase
	for _, k := range kinds {
		for _, p := range positions {
			if p >= n || (k == "none" && p != positions[0]) {
				continue
			}
			c := playCase{Path: "lib"}
			for i := 0; i < n; i++ {
				in := longBase(i)
				if i == p {
					in = longDeviate(in, k)
				}
				c.Insts = append(c.Insts, in)
			}
			r = append(r, c)
		}
	}
	return r
}

func longDescribe(n int, positions []int, kinds []string) string {
	ps := "every position"
	if positions != nil {
		ps = fmt.Sprintf("positions %v", positions)
	}
	if kinds == nil {
		kinds = longKinds
	}
	return fmt.Sprintf("periodic documents of %d instances (period 5: triad 1/1, seventh over a bass 1/2, rest 1/4, m9 1/3, triad 3/8) with one deviation of kind %v at %s", n, kinds, ps)
}

var longBoundary = []int{0, 1, 63, 64, 65, 99, 100, 126, 127, 128, 129, 199, 200, 254, 255, 256, 257, 299}

// runLong gives every long document to eval (in-process) and every cliEvery-th also through
// the real binary.
func runLong(e *Env, cliEvery int, eval func(c *playCase)) {
	type spec struct {
		n     int
		pos   []int
		kinds []string
	}
	specs := []spec{{130, nil, nil}, {300, longBoundary, nil}}
	if e.Thorough {
		specs = []spec{{130, nil, nil}, {300, nil, nil}, {1100, []int{0, 511, 512, 1023, 1024, 1025, 1099}, nil}}
	}
	for _, s := range specs {
		docs := longDocs(s.n, s.pos, s.kinds)
		mc.ParFor(len(docs), func(i int) {
			c := docs[i]
			eval(&c)
			e.R.Trace(1)
			e.R.Transition(int64(s.n))
			if cliEvery > 0 && i%cliEvery == 0 {
				cc := docs[i]
				cc.Path = "cli"
				eval(&cc)
			}
		})
		e.R.NonTrivialN(int64(len(docs)))
		cli := "in-process"
		if cliEvery > 0 {
			cli = fmt.Sprintf("in-process, every %d-th also through the real binary", cliEvery)
		}
		e.R.AddPart(ev.Part{Name: fmt.Sprintf("long-documents-%d", s.n), Enumerated: longDescribe(s.n, s.pos, s.kinds) + "; " + cli, Executions: int64(len(docs)), Transitions: int64(len(docs) * s.n), Exhaustive: true})
	}
}
