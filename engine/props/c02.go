package props

import (
	"encoding/json"
	"fmt"
	"sort"
	"strings"

	"verif/ev"
	"verif/mc"
	refplay "verif/ref/play"
	"verif/ref/smf"
	"verif/ref/timing"
)

// C02 — onsets, lengths and rests follow the written durations, gapless.

func init() {
	register(&Prop{ID: "C02", Run: runC02, Replay: map[string]func(*Env, json.RawMessage){
		"play": func(e *Env, raw json.RawMessage) {
			m, err := newModel(e)
			if err != nil {
				panic(err)
			}
			c := decode[playCase](raw)
			c02Eval(e, m, &c, true)
		},
		"writer-ops": func(e *Env, raw json.RawMessage) { c02ReplayOps(e, raw) },
	}})
}

// noteTimeline renders only note events: tick -> canon(without velocity) -> count.
func noteTimeline(f *smf.File) map[int64]map[string]int {
	m := map[int64]map[string]int{}
	for _, tr := range f.Tracks {
		for _, e := range tr {
			var k string
			switch {
			case e.IsNoteOn():
				k = fmt.Sprintf("on key%d", e.Key())
			case e.IsNoteOff():
				k = fmt.Sprintf("off key%d", e.Key())
			default:
				continue
			}
			if m[e.Tick] == nil {
				m[e.Tick] = map[string]int{}
			}
			m[e.Tick][k]++
		}
	}
	return m
}

func timelineString(m map[int64]map[string]int) string {
	var ticks []int64
	for t := range m {
		ticks = append(ticks, t)
	}
	sort.Slice(ticks, func(i, j int) bool { return ticks[i] < ticks[j] })
	var b strings.Builder
	for _, t := range ticks {
		var ks []string
		for k, n := range m[t] {
			ks = append(ks, fmt.Sprintf("%s x%d", k, n))
		}
		sort.Strings(ks)
		fmt.Fprintf(&b, "@%d{%s} ", t, strings.Join(ks, ","))
	}
	return b.String()
}

// expectedNoteTimeline: ons at the instance start, offs at its end, rests nothing.
func expectedNoteTimeline(m *refplay.Model, insts []refplay.Inst, fl refplay.Flags, up refplay.RoundChoice) (map[int64]map[string]int, []int) {
	exp, _, amb, err := m.Expect(insts, fl, up)
	if err != nil {
		panic("C02 harness: " + err.Error())
	}
	r := map[int64]map[string]int{}
	for _, x := range exp {
		a := x.Alt[0]
		if !strings.HasPrefix(a, "on ") && !strings.HasPrefix(a, "off ") {
			continue
		}
		// drop channel and velocity
		f := strings.Fields(a)
		k := f[0] + " " + f[2]
		if r[x.Tick] == nil {
			r[x.Tick] = map[string]int{}
		}
		r[x.Tick][k]++
	}
	return r, amb
}

func sameTimeline(a, b map[int64]map[string]int) bool {
	if len(a) != len(b) {
		return false
	}
	for t, m := range a {
		n := b[t]
		if len(n) != len(m) {
			return false
		}
		for k, c := range m {
			if n[k] != c {
				return false
			}
		}
	}
	return true
}

// strikeBeforeRelease looks, per track, for a note-on of a key that is still sounding.
func strikeBeforeRelease(f *smf.File) string {
	for ti, tr := range f.Tracks {
		open := map[int]int{}
		for _, e := range tr {
			switch {
			case e.IsNoteOn():
				if open[e.Key()] > 0 {
					return fmt.Sprintf("track %d tick %d: key %d struck while the previous chord's note of the same key has not been released", ti, e.Tick, e.Key())
				}
				open[e.Key()]++
			case e.IsNoteOff():
				open[e.Key()]--
			}
		}
	}
	return ""
}

func c02Eval(e *Env, m *refplay.Model, c *playCase, report bool) bool {
	doc := refplay.YAML(c.Insts)
	res := runWrite(c.Path, doc, c.Cfg)
	e.R.Eval(1)
	fail := func(class, s string) bool {
		if report {
			c.fill()
			e.R.Fail(ev.Fail{Class: class, Msg: s, Kind: "play", Case: c})
		}
		return false
	}
	if res.Err != "" {
		cl := "C02/refused/" + c.Path
		if res.Crashed {
			cl = "C02/crash/" + c.Path
		}
		return fail(cl, "valid document refused: "+res.Err)
	}
	f, err := smf.Parse(res.Bytes)
	if err != nil {
		return fail("C02/undecodable/"+c.Path, "output is not a readable SMF: "+err.Error())
	}
	if f.Division != int(m.T) {
		mm := *m
		mm.T = int64(f.Division)
		m = &mm
	}
	got := noteTimeline(f)
	_, amb := expectedNoteTimeline(m, c.Insts, c.Cfg.Flags, nil)
	if len(amb) > 10 {
		amb = amb[:10]
	}
	matched := false
	var first map[int64]map[string]int
	for mask := 0; mask < 1<<uint(len(amb)) && !matched; mask++ {
		want, _ := expectedNoteTimeline(m, c.Insts, c.Cfg.Flags, func(i int) bool {
			for j, a := range amb {
				if a == i {
					return mask>>uint(j)&1 == 0
				}
			}
			return true
		})
		if mask == 0 {
			first = want
		}
		matched = sameTimeline(want, got)
	}
	if !matched {
		return fail("C02/timeline/"+c.Path+"/"+c02Shape(c), fmt.Sprintf("durations %s on %d track(s): notes at %s, written durations require %s", c02Durations(c), max(c.Cfg.Tracks, 1), timelineString(got), timelineString(first)))
	}
	if msg := strikeBeforeRelease(f); msg != "" {
		return fail("C02/strike-before-release/"+c.Path, msg)
	}
	if len(first) > 0 && !report {
		// reference-model state reached by this history: the clock at its end
		var end int64
		for t := range first {
			if t > end {
				end = t
			}
		}
		e.R.State(fmt.Sprintf("clock:%d", end))
	}
	return true
}

func c02Durations(c *playCase) string {
	var s []string
	for _, in := range c.Insts {
		var v []string
		for _, x := range in.Values {
			v = append(v, x.String())
		}
		k := "R"
		if in.Chord != nil {
			k = in.Chord.Degree.Notation() + in.Chord.Symbol
		}
		s = append(s, k+"["+strings.Join(v, ",")+"]")
	}
	return strings.Join(s, " ")
}

// c02Shape classifies a failing history coarsely (for the known-findings class key).
func c02Shape(c *playCase) string {
	frac, multi, rest := false, false, false
	for _, in := range c.Insts {
		if in.Chord == nil {
			rest = true
		}
		if len(in.Values) > 1 {
			multi = true
		}
		for _, v := range in.Values {
			if v.Den != 1 {
				frac = true
			}
		}
	}
	var s []string
	if rest {
		s = append(s, "rest")
	}
	if frac {
		s = append(s, "fraction")
	}
	if multi {
		s = append(s, "multi-value")
	}
	if len(s) == 0 {
		return "plain"
	}
	return strings.Join(s, "+")
}

func fr(n, d uint64) timing.Frac { return timing.Frac{Num: n, Den: d} }

func c02ValueLists() [][]timing.Frac {
	singles := []timing.Frac{fr(1, 1), fr(2, 1), fr(1, 2), fr(1, 3), fr(2, 3), fr(3, 2), fr(1, 7), fr(5, 4), fr(7, 11), fr(1, 960), fr(1, 1920), fr(3, 1920)}
	// beyond 16 bits of ticks (69 beats = 66 240 ticks) and far beyond (70 000 beats = 67.2 M ticks, still below 2^28)
	singles = append(singles, fr(69, 1), fr(70000, 1))
	// below half a tick: the instance occupies 0 ticks, its notes must still be struck and released
	singles = append(singles, fr(1, 2000))
	var r [][]timing.Frac
	for _, s := range singles {
		r = append(r, []timing.Frac{s})
	}
	small := []timing.Frac{fr(1, 1), fr(1, 2), fr(1, 3)}
	for _, a := range small {
		for _, b := range small {
			r = append(r, []timing.Frac{a, b})
		}
	}
	r = append(r, []timing.Frac{fr(1, 3), fr(1, 3), fr(1, 3)}, []timing.Frac{fr(1, 1920), fr(1, 1920)}, []timing.Frac{fr(1, 7), fr(1, 7)})
	// pairwise coprime denominators whose product exceeds 64 bits (exact arithmetic in machine words overflows)
	r = append(r, []timing.Frac{fr(999982, 999983), fr(999978, 999979), fr(999960, 999961), fr(999958, 999959)})
	var primes []timing.Frac
	for _, p := range []uint64{251, 257, 263, 269, 271, 277, 281, 283, 293, 307} {
		primes = append(primes, fr(100, p))
	}
	r = append(r, primes)
	return r
}

func runC02(e *Env) {
	e.R.Rule = "all histories up to the stated length over {chord C, chord G7, rest} x 29 duration lists (unit and non-unit numerators, denominators not dividing 960, exactly-half-tick values, several fractions per instance), on 1 and 3 tracks; note-on/off ticks compared with exact rational arithmetic, either neighbour on exact ties; distinct = distinct history; non-trivial = contains a fractional or multi-value duration or a rest"
	e.R.Assume("reference: math/big rationals; T read from the file header; same-tick order only constrained per track (release before strike of the same key)")
	e.R.Exclude("chords with a pitch doubled inside the chord (strike-before-release is then not observable per key)")
	m, err := newModel(e)
	if err != nil {
		panic(err)
	}
	lists := c02ValueLists()
	type shape struct {
		kind int // 0 C, 1 G7, 2 rest
		vals []timing.Frac
	}
	var shapes []shape
	for k := 0; k < 3; k++ {
		for _, v := range lists {
			shapes = append(shapes, shape{k, v})
		}
	}
	mk := func(s shape) refplay.Inst {
		in := refplay.Inst{Values: s.vals}
		switch s.kind {
		case 0:
			in.Chord = &refplay.Chord{Degree: iv("1"), Symbol: ""}
		case 1:
			in.Chord = &refplay.Chord{Degree: iv("5"), Symbol: "7"}
		}
		return in
	}
	run := func(name string, alphabet []shape, maxLen int, tracks []int) {
		n := len(alphabet)
		total := 0
		pow := 1
		var offsets []int
		for l := 1; l <= maxLen; l++ {
			pow *= n
			offsets = append(offsets, total)
			total += pow
		}
		mc.ParFor(total, func(i int) {
			l := 0
			for l+1 < len(offsets) && i >= offsets[l+1] {
				l++
			}
			x := i - offsets[l]
			var insts []refplay.Inst
			nt := false
			key := make([]byte, 0, 8)
			for j := 0; j <= l; j++ {
				s := alphabet[x%n]
				key = append(key, byte(x%n))
				x /= n
				insts = append(insts, mk(s))
				if s.kind == 2 || len(s.vals) > 1 || s.vals[0].Den != 1 {
					nt = true
				}
			}
			for _, t := range tracks {
				c := playCase{Insts: insts, Cfg: writeCfg{Tracks: t}, Path: "lib"}
				if !c02Eval(e, m, &c, false) {
					c02Eval(e, m, &c, true)
				}
				e.R.Trace(1)
				e.R.Transition(int64(len(insts)))
			}
			if nt {
				e.R.NonTrivialN(1) // histories of one part are distinct by construction
			}
		})
		e.R.AddPart(ev.Part{Name: name, Enumerated: fmt.Sprintf("all histories of length <= %d over %d timed shapes, tracks %v", maxLen, n, tracks), Executions: int64(total * len(tracks)), Exhaustive: true})
	}
	// sub-alphabet of 12: {C, rest} x {1, 1/3, 1/1920, 7/11, (1/3,1/3,1/3), (1/2,1/3)}
	var sub []shape
	for _, k := range []int{0, 2} {
		for _, v := range [][]timing.Frac{{fr(1, 1)}, {fr(1, 3)}, {fr(1, 1920)}, {fr(7, 11)}, {fr(1, 3), fr(1, 3), fr(1, 3)}, {fr(1, 2), fr(1, 3)}} {
			sub = append(sub, shape{k, v})
		}
	}
	if e.Thorough {
		run("histories-len3", shapes, 3, []int{1, 3})
		var half []shape
		for i, s := range shapes {
			if i%3 != 2 || s.kind == 2 {
				half = append(half, s)
			}
		}
		run("histories-len4", half[:36], 4, []int{1})
		run("histories-len5-sub", sub, 5, []int{1, 3})
	} else {
		run("histories-len2", shapes, 2, []int{1, 3})
		run("histories-len3-1track", shapes, 3, []int{1})
		run("histories-len4-sub", sub, 4, []int{1, 3})
	}
	// durations whose tick count sits on a boundary of the variable-length delta encoding
	// (1 | 2 | 3 | 4 bytes: 127/128, 16383/16384, 2097151/2097152 ticks) and of 16 bits
	var vlq []shape
	for _, ticks := range []uint64{127, 128, 129, 16383, 16384, 16385, 65535, 65536, 2097151, 2097152, 2097153} {
		for k := 0; k < 3; k++ {
			vlq = append(vlq, shape{k, []timing.Frac{fr(ticks, 3840)}})
		}
	}
	if e.Thorough {
		run("vlq-boundary-durations", vlq, 3, []int{1, 3})
	} else {
		run("vlq-boundary-durations", vlq, 2, []int{1, 3})
	}
	e.R.Sample(map[string]any{"history": "C[1/3,1/3,1/3] R[1/1920] G7[7/11] on 3 tracks", "oracle": "ons at 0, offs at 960; rest 0 or 1 tick; G7 on at 960|961, length round(960*7/11)=611"})
	// CLI: every length-1 and a slice of length-2 histories through the real binary
	var cliCases []playCase
	for _, s := range shapes {
		cliCases = append(cliCases, playCase{Insts: []refplay.Inst{mk(shape{2, []timing.Frac{fr(1, 3)}}), mk(s), mk(shape{0, []timing.Frac{fr(1, 1)}})}, Path: "cli"})
	}
	for _, a := range sub {
		for _, b := range sub {
			for _, t := range []int{1, 3} {
				cliCases = append(cliCases, playCase{Insts: []refplay.Inst{mk(a), mk(b), mk(shape{0, []timing.Frac{fr(1, 1)}})}, Cfg: writeCfg{Tracks: t}, Path: "cli"})
			}
		}
	}
	mc.ParFor(len(cliCases), func(i int) {
		c := cliCases[i]
		c02Eval(e, m, &c, true)
		e.R.Trace(1)
	})
	e.R.AddPart(ev.Part{Name: "cli-histories", Enumerated: "real binary: R[1/3] X C[1] for each timed shape X; all pairs over the 12-shape sub-alphabet followed by C[1] on 1 and 3 tracks", Executions: int64(len(cliCases)), Exhaustive: true})
	// durations around what a delta can state (2^28 ticks = 279 620.27 beats) and around the
	// 32-bit tick counters (2^32 ticks = 4 473 924.27 beats): refused, or at the exact ticks
	var huge []playCase
	chord0 := mk(shape{0, []timing.Frac{fr(1, 1)}})
	for _, beats := range []uint64{279620, 279621, 300000, 4473924, 4473925, 4473926, 5000000, 8947849, 1 << 40} {
		v := []timing.Frac{{Num: beats, Den: 1}}
		for _, path := range []string{"lib", "cli"} {
			huge = append(huge,
				playCase{Path: path, Insts: []refplay.Inst{chord0, {Values: v}, chord0}},
				playCase{Path: path, Insts: []refplay.Inst{{Chord: chord0.Chord, Values: v}, chord0}},
				playCase{Path: path, Insts: []refplay.Inst{chord0, {Values: v}}, Cfg: writeCfg{Tracks: 2}},
				// two rests that only together pass the limit
				playCase{Path: path, Insts: []refplay.Inst{chord0, {Values: []timing.Frac{{Num: beats / 2, Den: 1}}}, {Values: []timing.Frac{{Num: beats - beats/2, Den: 1}}}, chord0}},
				// many tracks: an idle track waits for the whole piece
				playCase{Path: path, Insts: []refplay.Inst{{Chord: chord0.Chord, Values: []timing.Frac{{Num: beats / 2, Den: 1}}}, {Chord: chord0.Chord, Values: []timing.Frac{{Num: beats - beats/2, Den: 1}}}}, Cfg: writeCfg{Tracks: 8}},
			)
		}
	}
	mc.ParFor(len(huge), func(i int) {
		c := huge[i]
		res := runWrite(c.Path, refplay.YAML(c.Insts), c.Cfg)
		if res.Err != "" && !res.Crashed && !res.Hang {
			e.R.Eval(1)
			e.R.Outcome("refused")
			return
		}
		c02Eval(e, m, &c, true)
	})
	e.R.AddPart(ev.Part{Name: "over-long-durations", Enumerated: "a rest, a chord, a trailing rest on 2 tracks, two rests in a row and two chords on 8 tracks of 279 620 ... 2^40 beats in total (a delta reaches 2^28 ticks at 279 620.27 beats, a 32-bit tick counter wraps at 4 473 924.27 beats), in-process and through the binary: refused, or notes at the exact ticks", Executions: int64(len(huge)), Exhaustive: true})
	runLong(e, 16, func(c *playCase) {
		c02Eval(e, m, c, true)
		c3 := *c
		c3.Cfg.Tracks = 3
		c02Eval(e, m, &c3, true)
	})
	runYAMLForms(e, "C02")
	c02Accounting(e)
}
