// Package mc holds the exploration engines: a stateless choice-tree search with a
// deviation bound (Explore), an explicit-state breadth-first search (BFS) and
// small helpers for exhaustive products run on a worker pool.
package mc

import (
	"fmt"
	"runtime"
	"runtime/debug"
	"sync"
	"sync/atomic"
)

// Point is one choice point met by an execution.
type Point struct {
	N      int  // number of alternatives
	Chosen int  // alternative taken
	Free   bool // free points cost no deviation (full product)
}

// Chooser hands out decisions to a harness body. Choice 0 is the declared default.
type Chooser struct {
	prefix []int
	Points []Point
}

// ReplayError is raised (as a panic) when a recorded prefix does not fit the execution.
type ReplayError struct{ Msg string }

func (e ReplayError) Error() string { return e.Msg }

func (c *Chooser) choose(n int, free bool) int {
	if n <= 0 {
		panic(ReplayError{fmt.Sprintf("choice point with %d alternatives", n)})
	}
	i := len(c.Points)
	v := 0
	if i < len(c.prefix) {
		v = c.prefix[i]
		if v < 0 || v >= n {
			panic(ReplayError{fmt.Sprintf("replay diverged: point %d has %d alternatives, recorded choice %d", i, n, v)})
		}
	}
	c.Points = append(c.Points, Point{N: n, Chosen: v, Free: free})
	return v
}

// Choose returns a decision in [0,n); a non-zero decision costs one deviation.
func (c *Chooser) Choose(n int) int { return c.choose(n, false) }

// ChooseFree returns a decision in [0,n) that costs nothing (explored as a full product).
func (c *Chooser) ChooseFree(n int) int { return c.choose(n, true) }

// Choices returns the decisions taken so far.
func (c *Chooser) Choices() []int {
	r := make([]int, len(c.Points))
	for i, p := range c.Points {
		r[i] = p.Chosen
	}
	return r
}

// Deviations is the number of non-free points at which a non-default was taken.
func (c *Chooser) Deviations() int {
	d := 0
	for _, p := range c.Points {
		if !p.Free && p.Chosen != 0 {
			d++
		}
	}
	return d
}

// NewReplay makes a chooser that replays prefix and then takes defaults.
func NewReplay(prefix []int) *Chooser { return &Chooser{prefix: prefix} }

// Stats of one Explore call.
type Stats struct {
	Executions int64
	MaxPoints  int64
	Bound      int
}

// Explore runs body for every choice vector with at most bound deviations.
// body is run on `workers` goroutines and must be self-contained. visit is
// called (serialised by the caller if needed) after every execution.
func Explore(bound, workers int, body func(c *Chooser)) Stats {
	if workers <= 0 {
		workers = runtime.NumCPU()
	}
	var (
		st      Stats
		mu      sync.Mutex
		cond    = sync.NewCond(&mu)
		stack   = [][]int{nil}
		pending = 1
		maxPts  int64
		execs   int64
	)
	st.Bound = bound
	var wg sync.WaitGroup
	for w := 0; w < workers; w++ {
		wg.Add(1)
		go func() {
			defer wg.Done()
			for {
				mu.Lock()
				for len(stack) == 0 && pending > 0 {
					cond.Wait()
				}
				if pending == 0 {
					mu.Unlock()
					cond.Broadcast()
					return
				}
				prefix := stack[len(stack)-1]
				stack = stack[:len(stack)-1]
				mu.Unlock()

				c := NewReplay(prefix)
				body(c)
				atomic.AddInt64(&execs, 1)
				if n := int64(len(c.Points)); n > atomic.LoadInt64(&maxPts) {
					atomic.StoreInt64(&maxPts, n)
				}
				if len(c.Points) < len(prefix) {
					panic(ReplayError{"replay diverged: execution shorter than its prefix"})
				}
				var kids [][]int
				cost := 0
				for i := 0; i < len(prefix); i++ {
					if !c.Points[i].Free && c.Points[i].Chosen != 0 {
						cost++
					}
				}
				ch := c.Choices()
				for i := len(prefix); i < len(c.Points); i++ {
					p := c.Points[i]
					if p.Free || cost+1 <= bound {
						for alt := 1; alt < p.N; alt++ {
							k := make([]int, i+1)
							copy(k, ch[:i])
							k[i] = alt
							kids = append(kids, k)
						}
					}
				}
				mu.Lock()
				stack = append(stack, kids...)
				pending += len(kids) - 1
				mu.Unlock()
				cond.Broadcast()
			}
		}()
	}
	wg.Wait()
	st.Executions = execs
	st.MaxPoints = maxPts
	return st
}

// ParFor runs f(i) for i in [0,n) on all cores.
func ParFor(n int, f func(i int)) {
	workers := runtime.NumCPU()
	if workers > n {
		workers = n
	}
	if workers <= 1 {
		for i := 0; i < n; i++ {
			f(i)
		}
		return
	}
	var next int64 = -1
	var wg sync.WaitGroup
	var mu sync.Mutex
	var first any
	var stack []byte
	for w := 0; w < workers; w++ {
		wg.Add(1)
		go func() {
			defer wg.Done()
			// a panic in a worker is handed to the caller (which may have verdicts to print first)
			defer func() {
				if x := recover(); x != nil {
					mu.Lock()
					if first == nil {
						first, stack = x, debug.Stack()
					}
					mu.Unlock()
					atomic.StoreInt64(&next, int64(n)) // stop handing out work
				}
			}()
			for {
				i := int(atomic.AddInt64(&next, 1))
				if i >= n {
					return
				}
				f(i)
			}
		}()
	}
	wg.Wait()
	if first != nil {
		panic(fmt.Sprintf("%v\n%s", first, stack))
	}
}

// BFSResult reports an explicit-state search.
type BFSResult struct {
	States      int
	Transitions int
	MaxDepth    int
	Fixpoint    bool // frontier emptied before the depth cap
}

// BFS explores from the initial state. A state is identified by the key returned by
// step; path is the operation sequence reaching it (live objects are not cloned: the
// step function rebuilds the implementation by replaying path on a fresh instance).
// step(path, op) executes path then op on a fresh instance, checks the transition
// oracle itself, and returns the canonical key of the reached state and whether to
// go on from it.
func BFS(initKey string, nOps int, maxDepth int, step func(path []int, op int) (key string, ok bool)) BFSResult {
	type node struct {
		path []int
	}
	seen := map[string]bool{initKey: true}
	frontier := []node{{}}
	res := BFSResult{States: 1}
	depth := 0
	for len(frontier) > 0 {
		if maxDepth >= 0 && depth >= maxDepth {
			return res
		}
		var next []node
		for _, n := range frontier {
			for op := 0; op < nOps; op++ {
				k, ok := step(n.path, op)
				res.Transitions++
				if !ok {
					continue
				}
				if !seen[k] {
					seen[k] = true
					res.States++
					p := append(append([]int{}, n.path...), op)
					next = append(next, node{p})
				}
			}
		}
		frontier = next
		depth++
		if len(next) > 0 {
			res.MaxDepth = depth
		}
	}
	res.Fixpoint = true
	return res
}
