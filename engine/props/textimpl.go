package props

import (
	"fmt"
	"io"
	"path/filepath"
	"strings"
	"sync"

	"github.com/berquerant/crd/input/ast"
	"github.com/berquerant/ybase"

	"verif/ref/chordlang"
)

// eofPollReader makes non-termination visible without a clock: a lexer loop whose
// predicate stays true at end of input polls the source once per spin; a terminating
// lexer polls it a handful of times. The 256th read after EOF panics.
type eofPollReader struct {
	r     *strings.Reader
	polls int
}

type hangPanic struct{}

func (e *eofPollReader) Read(p []byte) (int, error) {
	n, err := e.r.Read(p)
	if err == io.EOF {
		e.polls++
		if e.polls >= 256 {
			panic(hangPanic{})
		}
	}
	return n, err
}

var implTokNames = map[int]string{
	ast.SYLLABLE: "SYLLABLE", ast.SLASH: "SLASH", ast.LBRA: "LBRA", ast.RBRA: "RBRA", ast.COMMA: "COMMA",
	ast.SEMICOLON: "SEMICOLON", ast.SHARP: "SHARP", ast.FLAT: "FLAT", ast.NUMBER: "NUMBER", ast.SYMBOL: "SYMBOL",
	ast.REST: "REST", ast.UNDERSCORE: "UNDERSCORE", ast.LCBRA: "LCBRA", ast.RCBRA: "RCBRA", ast.EQUAL: "EQUAL", ast.METADATA: "METADATA",
}

// parseOut is what the real lexer+parser did with a text.
type parseOut struct {
	Accepted bool
	Hang     bool
	Panic    string
	Err      string
	Tree     []chordlang.Item
	List     *ast.ChordList
}

// implParse runs ast.NewLexer + ast.Parse the way cmd/io.go parseText does.
func implParse(text string) (out parseOut) {
	defer func() {
		if r := recover(); r != nil {
			if _, ok := r.(hangPanic); ok {
				out = parseOut{Hang: true}
				return
			}
			out = parseOut{Panic: fmt.Sprint(r)}
		}
	}()
	lex := ast.NewLexer(&eofPollReader{r: strings.NewReader(text)})
	_ = ast.Parse(lex)
	if err := lex.Err(); err != nil {
		return parseOut{Err: err.Error()}
	}
	if lex.Result == nil {
		return parseOut{Err: "no error and no result"}
	}
	return parseOut{Accepted: true, Tree: implTree(lex.Result), List: lex.Result}
}

func tv(t ybase.Token) string {
	if t == nil {
		return ""
	}
	return t.Value()
}

func implDegree(d *ast.ChordDegree) (string, string) {
	if d == nil {
		return "<nil>", ""
	}
	return tv(d.Degree), tv(d.Accidental)
}

func implValues(v *ast.ChordValues) [][2]string {
	var r [][2]string
	if v == nil {
		return nil
	}
	for _, x := range v.Values {
		r = append(r, [2]string{tv(x.Num), tv(x.Denom)})
	}
	return r
}

func implMeta(m *ast.ChordMeta) ([][2]string, bool) {
	if m == nil {
		return nil, false
	}
	var r [][2]string
	for _, x := range m.Data {
		r = append(r, [2]string{tv(x.Key), tv(x.Value)})
	}
	return r, true
}

// implTree flattens the AST into the comparison form (token values; positions are not compared).
func implTree(l *ast.ChordList) []chordlang.Item {
	var items []chordlang.Item
	for _, x := range l.List {
		var it chordlang.Item
		switch v := x.(type) {
		case *ast.Rest:
			it.Rest = true
			it.Values = implValues(v.Values)
			it.Meta, it.HasMeta = implMeta(v.Meta)
		case *ast.Chord:
			it.Root, it.Acc = implDegree(v.Degree)
			if v.Symbol != nil {
				it.HasSym, it.Symbol = true, tv(v.Symbol.Symbol)
			}
			if v.Base != nil {
				it.HasBass = true
				it.BassRoot, it.BassAcc = implDegree(v.Base.Degree)
			}
			it.Values = implValues(v.Values)
			it.Meta, it.HasMeta = implMeta(v.Meta)
		}
		items = append(items, it)
	}
	return items
}

// lexOut is the token stream of the real lexer driven without the parser.
type lexOut struct {
	Toks  []chordlang.Tok
	Modes []chordlang.Mode // only with hooks
	Err   bool
	Hang  bool
	Panic string
}

func implLex(text string) (out lexOut) {
	defer func() {
		if r := recover(); r != nil {
			if _, ok := r.(hangPanic); ok {
				out.Hang = true
				return
			}
			out.Panic = fmt.Sprint(r)
		}
	}()
	lex := ast.NewLexer(&eofPollReader{r: strings.NewReader(text)})
	for n := 0; n < 100000; n++ {
		var tok ybase.Token
		t := lex.DoLex(func(x ybase.Token) { tok = x })
		if t == ybase.EOF || tok == nil {
			break
		}
		name, ok := implTokNames[t]
		if !ok {
			name = fmt.Sprintf("tok%d", t)
		}
		out.Toks = append(out.Toks, chordlang.Tok{Kind: name, Val: tok.Value()})
		if m, ok := lexMode(lex); ok {
			out.Modes = append(out.Modes, m)
		}
	}
	out.Err = lex.Err() != nil
	return out
}

var (
	grammarOnce sync.Once
	grammarG    *chordlang.Grammar
	grammarP    *chordlang.SLR
	grammarErr  error
)

// loadGrammar reads chords.y of the working tree and builds the recognisers.
func loadGrammar(repo string) (*chordlang.Grammar, *chordlang.SLR, error) {
	grammarOnce.Do(func() {
		grammarG, grammarErr = chordlang.ReadYacc(filepath.Join(repo, "input", "ast", "chords.y"))
		if grammarErr == nil {
			grammarP = grammarG.BuildSLR()
		}
	})
	return grammarG, grammarP, grammarErr
}

func kindsOf(toks []chordlang.Tok) []string {
	r := make([]string, len(toks))
	for i, t := range toks {
		r[i] = t.Kind
	}
	return r
}
