package props

import (
	"bytes"
	"context"
	"encoding/json"
	"fmt"
	"os"
	"os/exec"
	"path/filepath"
	"sort"
	"strings"
	"sync"
	"sync/atomic"
	"syscall"
	"time"

	"verif/cli"
	"verif/ev"
	"verif/mc"
	"verif/rewrite"
)

// C12 — same command, same input, same bytes, on every run and every I/O path.

// c12Cmd is a data-producing command with its input.
type c12Cmd struct {
	Name  string   `json:"name"`
	Args  []string `json:"args"`
	Input string   `json:"input,omitempty"` // "" = the command reads nothing
}

type c12MapCase struct {
	Cmd    c12Cmd `json:"cmd"`
	Policy string `json:"policy"` // VERIF_MAPORDER value
}

type c12IOCase struct {
	Cmd   c12Cmd `json:"cmd"`
	In    string `json:"in"`  // stdin | dash | file | stdin-chunked
	Out   string `json:"out"` // stdout | file | existing-file
	Debug bool   `json:"debug"`
}

type c12SchedCase struct {
	Text     string `json:"text"`
	Bound    int    `json:"bound"`
	Schedule []int  `json:"schedule,omitempty"`
	Outcome  string `json:"outcome,omitempty"`
	Want     string `json:"want,omitempty"`
}

func init() {
	register(&Prop{ID: "C12", Run: runC12, Replay: map[string]func(*Env, json.RawMessage){
		"map-order": func(e *Env, raw json.RawMessage) {
			bin, _, err := c12BuildMapOrder(e)
			if err != nil {
				panic(err)
			}
			c12MapEval(e, bin, decode[c12MapCase](raw))
		},
		"io-path": func(e *Env, raw json.RawMessage) { c12IOEval(e, decode[c12IOCase](raw), nil) },
		"schedule": func(e *Env, raw json.RawMessage) {
			bin, _, err := c12BuildSched(e)
			if err != nil {
				panic(err)
			}
			c := decode[c12SchedCase](raw)
			s, _ := json.Marshal(c.Schedule)
			out, err := exec.Command(bin, fmt.Sprint(c.Bound), "1", c.Text, string(s)).Output()
			fmt.Printf("replayed schedule: %s (err %v)\n", out, err)
			var r struct{ Outcome, Want string }
			json.Unmarshal(out, &r)
			if r.Outcome != r.Want {
				e.R.Fail(ev.Fail{Class: "C12/schedule/outcome", Msg: fmt.Sprintf("schedule %v: %s, sequential reference %s", c.Schedule, r.Outcome, r.Want), Kind: "schedule", Case: c})
			}
		},
		"repeat": func(e *Env, raw json.RawMessage) { c12Repeat(e, decode[c12Cmd](raw)) },
		"schedule-text-conv": func(e *Env, raw json.RawMessage) {
			bin, _, err := c12BuildSchedMain(e)
			if err != nil {
				panic(err)
			}
			c := decode[c12SchedMainCase](raw)
			s, _ := json.Marshal(c.Schedule)
			cmd := exec.Command(bin, fmt.Sprint(c.Bound), "1", c.Mode, c.Key, c.Text, string(s))
			cmd.Env = append(os.Environ(), "VERIF_SCHED=1", "GOMAXPROCS=4")
			out, err := cmd.Output()
			fmt.Printf("replayed schedule: %s (err %v)\n", out, err)
			var r struct{ Outcome, Want string }
			json.Unmarshal(out, &r)
			if r.Outcome != r.Want {
				e.R.Fail(ev.Fail{Class: "C12/schedule/text-conv-outcome", Msg: fmt.Sprintf("schedule %v: %s, default schedule %s", c.Schedule, r.Outcome, r.Want), Kind: "schedule-text-conv", Case: c})
			}
		},
		"schedule-command": func(e *Env, raw json.RawMessage) {
			bin, _, err := c12BuildSchedMain(e)
			if err != nil {
				panic(err)
			}
			c := decode[c12SchedCmdCase](raw)
			r := c12SchedCmdRun(bin, c, "1", "60", append([]int{}, c.Schedule...)) // non-nil: replay mode even for the empty (default) schedule
			fmt.Printf("replayed schedule: %s\n", r.raw)
			if r.Outcome != r.Want {
				e.R.Fail(ev.Fail{Class: "C12/schedule/command-outcome", Msg: fmt.Sprintf("crd %s under schedule %v: %s, default schedule %s", strings.Join(c.Cmd.Args, " "), c.Schedule, r.Outcome, r.Want), Kind: "schedule-command", Case: c})
			}
		},
	}})
}

const (
	c12Text1 = "C#m7/E[1,1/2]{key=A,txt=a b,lic=l,mrk=m,bpm=90} R[2] Bb_7[4]{vel=ff,mtr=3/4}"
	c12Text2 = "3bm7/5[1]{bpm=90,key=Ebm,zz=1,aa=2} ;c\n1[2] R[1]{txt=x}"
	c12Doc1  = "- chord:\n    degree: \"1\"\n    name: \"7\"\n    base: \"3\"\n  values:\n    - \"1\"\n    - \"1/2\"\n  bpm: 120\n  velocity: f\n  meter: \"3/4\"\n  key: \"Am\"\n  meta:\n    txt: hi\n    lic: la\n    mrk: mk\n    zz: \"1\"\n- values:\n    - 2\n- chord:\n    degree: \"b6\"\n    name: \"maj9\"\n  values:\n    - \"2/3\"\n  key: Cb\n"
)

const (
	c12UserChords  = "- name: UserA\n  meta:\n    display: ua\n  extends: MajorTriad\n  attributes:\n    - Perfect5\n    - Major9\n    - UA\n- name: UserB\n  meta:\n    display: ub\n  extends: ua\n  attributes:\n    - Major3\n    - Minor7\n- name: UserC\n  meta:\n    display: uc\n  extends: m7\n  attributes:\n    - Minor7\n    - Minor3\n- name: UserSeven\n  meta:\n    display: \"7\"\n  attributes:\n    - Perfect1\n    - Perfect4\n- name: MinorTriad\n  meta:\n    display: umin\n  attributes:\n    - Perfect1\n    - Minor3\n"
	c12UserChords2 = "- name: UserA\n  meta:\n    display: ua\n  extends: MinorTriad\n  attributes:\n    - Minor7\n- name: UserD\n  meta:\n    display: ud\n  extends: UserA\n  attributes:\n    - Major9\n"
	c12UserAttrs2  = "- name: UA\n  degree: \"b9\"\n- name: UC\n  degree: \"13\"\n"
	c12UserAttrs   = "- name: UA\n  degree: \"#11\"\n- name: UB\n  degree: \"b13\"\n"
	c12UserDoc     = "- chord:\n    degree: \"1\"\n    name: \"ua\"\n  values:\n    - \"1\"\n- chord:\n    degree: \"4\"\n    name: \"UserB\"\n    base: \"5\"\n  values:\n    - \"1\"\n- chord:\n    degree: \"5\"\n    name: \"uc\"\n  values:\n    - \"1\"\n- chord:\n    degree: \"5\"\n    name: \"7\"\n  values:\n    - \"1\"\n- chord:\n    degree: \"2\"\n    name: \"m\"\n  values:\n    - \"1\"\n- chord:\n    degree: \"2\"\n    name: \"DominantSeventh\"\n  values:\n    - \"1\"\n"
)

var (
	c12DictOnce                 sync.Once
	c12ChordFile, c12AttrFile   string
	c12ChordFile2, c12AttrFile2 string
)

// c12Args resolves the placeholders {CHORDS} and {ATTRS} to the user dictionary files of this run.
func c12Args(args []string) []string {
	c12DictOnce.Do(func() {
		c12ChordFile = writeTemp(cli.Scratch, "c12-chords.yml", c12UserChords)
		c12AttrFile = writeTemp(cli.Scratch, "c12-attrs.yml", c12UserAttrs)
		c12ChordFile2 = writeTemp(cli.Scratch, "c12-chords2.yml", c12UserChords2)
		c12AttrFile2 = writeTemp(cli.Scratch, "c12-attrs2.yml", c12UserAttrs2)
	})
	r := make([]string, len(args))
	for i, a := range args {
		r[i] = strings.NewReplacer("{CHORDS}", c12ChordFile, "{ATTRS}", c12AttrFile, "{CHORDS2}", c12ChordFile2, "{ATTRS2}", c12AttrFile2).Replace(a)
	}
	return r
}

func c12Commands(thorough bool) []c12Cmd {
	chordFile, attrFile := "{CHORDS}", "{ATTRS}"
	cs := []c12Cmd{
		// a user dictionary whose chords repeat attributes of their parents
		{"info-chord-describe-user", []string{"info", "chord", "describe", "-t", "C_ua", "--chord", chordFile, "--attr", attrFile}, ""},
		{"info-chord-describe-user", []string{"info", "chord", "describe", "-t", "Eb_UserB", "--chord", chordFile, "--attr", attrFile, "-s"}, ""},
		{"info-chord-describe-user", []string{"info", "chord", "describe", "-t", "F#_uc", "--chord", chordFile, "--attr", attrFile}, ""},
		{"info-chord-describe-user", []string{"info", "chord", "describe", "-t", "G_7", "--chord", chordFile, "--attr", attrFile}, ""},
		{"info-chord-describe-user", []string{"info", "chord", "describe", "-t", "Dm", "--chord", chordFile, "--attr", attrFile}, ""},
		{"info-chord-list-user", []string{"info", "chord", "list", "--chord", chordFile, "--attr", attrFile}, ""},
		{"info-attr-list-user", []string{"info", "attr", "list", "--attr", attrFile}, ""},
		{"write-user", []string{"write", "--chord", chordFile, "--attr", attrFile}, c12UserDoc},
		{"write-event-user", []string{"write", "event", "--chord", chordFile, "--attr", attrFile, "--track", "3"}, c12UserDoc},
		{"write-conv-user", []string{"write", "conv", "-c", "cmt", "--chord", chordFile, "--attr", attrFile}, c12UserDoc},
		// several dictionary files, the same names defined in both: the order of the flags decides, nothing else
		{"info-chord-list-two-files", []string{"info", "chord", "list", "--chord", chordFile, "--chord", "{CHORDS2}", "--attr", attrFile, "--attr", "{ATTRS2}"}, ""},
		{"info-chord-list-two-files", []string{"info", "chord", "list", "--chord", "{CHORDS2}", "--chord", chordFile, "--attr", "{ATTRS2}", "--attr", attrFile}, ""},
		{"info-attr-list-two-files", []string{"info", "attr", "list", "--attr", attrFile, "--attr", "{ATTRS2}"}, ""},
		{"info-chord-describe-two-files", []string{"info", "chord", "describe", "-t", "C_ua", "--chord", chordFile, "--chord", "{CHORDS2}", "--attr", attrFile, "--attr", "{ATTRS2}"}, ""},
		{"info-chord-describe-two-files", []string{"info", "chord", "describe", "-t", "C_ud", "--chord", "{CHORDS2}", "--chord", chordFile, "--attr", "{ATTRS2}", "--attr", attrFile}, ""},
		{"write-event-two-files", []string{"write", "event", "--chord", chordFile, "--chord", "{CHORDS2}", "--attr", attrFile, "--attr", "{ATTRS2}"}, c12UserDoc},
		{"write-two-files", []string{"write", "--chord", "{CHORDS2}", "--chord", chordFile, "--attr", "{ATTRS2}", "--attr", attrFile}, c12UserDoc},
		{"info-key-list", []string{"info", "key", "list"}, ""},
		{"midi-port", []string{"midi", "port", "in"}, ""},
		{"midi-port", []string{"midi", "port", "out"}, ""},
		{"info-attr-list", []string{"info", "attr", "list"}, ""},
		{"info-chord-list", []string{"info", "chord", "list"}, ""},
		{"gen-attr", []string{"gen", "attr", "-d", "20"}, ""},
		{"info-attr-describe", []string{"info", "attr", "describe", "-t", "Minor7", "-r", "C#"}, ""},
		{"info-attr-describe", []string{"info", "attr", "describe", "-t", "Augmented4", "-r", "Bb", "-s"}, ""},
		{"info-chord-describe", []string{"info", "chord", "describe", "-t", "Ebm7b5"}, ""},
		{"info-chord-describe", []string{"info", "chord", "describe", "-t", "C_9", "-s"}, ""},
		{"text-parse", []string{"text", "parse"}, c12Text1},
		{"text-conv-syllable", []string{"text", "conv", "syllable", "--key", "E"}, c12Text1},
		{"text-conv-degree", []string{"text", "conv", "degree"}, c12Text2},
		// metadata with keys that take a printing path of their own (<<) next to 1..5 ordinary keys
		{"text-conv-meta-keys", []string{"text", "conv", "degree"}, "1[1]{<<=x,b=1,a=2} 5[1]{<<=y} 4[1]{zz=1,<<=x,mm=2,aa=3,kk=4,bb=5} 1[1]{q=1,p=2}"},
		{"write-conv-meta-keys", []string{"write", "conv", "-c", "cmt"}, "- chord:\n    degree: \"1\"\n    name: \"7\"\n  values:\n    - \"1\"\n  meta:\n    \"<<\": x\n    b: \"1\"\n    a: \"2\"\n    lic: la\n"},
		{"write", []string{"write"}, c12Doc1},
		{"write", []string{"write", "--track", "3", "--key", "F#", "--bpm", "77"}, c12Doc1},
		{"write-event", []string{"write", "event"}, c12Doc1},
		// track counts at which a writer might start to work in parallel or in blocks
		{"write-tracks", []string{"write", "--track", "16"}, c12Doc1},
		{"write-tracks", []string{"write", "--track", "17"}, c12Doc1},
		{"write-tracks", []string{"write", "--track", "40"}, c12Doc1},
		{"write-tracks", []string{"write", "--track", "300"}, c12Doc1},
		{"write-event-tracks", []string{"write", "event", "--track", "33"}, c12Doc1},
		{"write-parse", []string{"write", "parse"}, c12Doc1},
		{"write-conv", []string{"write", "conv", "-c", "cmt"}, c12Doc1},
		// the same bytes on every path, whatever they are: byte-order mark, CR LF, no final newline
		{"text-conv-bom", []string{"text", "conv", "syllable"}, "\xef\xbb\xbfC[1] G_7[2]\n"},
		{"text-conv-crlf", []string{"text", "conv", "degree"}, "1[1] ;c\r\n5_7/3[2]\r\n"},
		{"write-bom", []string{"write", "event"}, "\xef\xbb\xbf" + c12Doc1},
		{"write-crlf", []string{"write"}, strings.ReplaceAll(c12Doc1, "\n", "\r\n")},
		// inputs larger than a read buffer
		{"text-conv-degree-large", []string{"text", "conv", "degree"}, strings.Repeat("3bm7/5[1,1/2]{txt=a b} 1[2] ", 400)},
		{"text-parse-large", []string{"text", "parse"}, strings.Repeat("C#m7/E[1] R[2] ", 700)},
		{"write-large", []string{"write", "--track", "2"}, strings.Repeat(c12Doc1, 40)},
		{"write-conv-large", []string{"write", "conv", "-c", "cmt"}, strings.Repeat(c12Doc1, 40)},
	}
	// what a command prints about itself is output too: same arguments, same bytes
	for _, path := range [][]string{{}, {"text"}, {"text", "parse"}, {"text", "conv"}, {"text", "conv", "syllable"}, {"text", "conv", "degree"},
		{"write"}, {"write", "event"}, {"write", "parse"}, {"write", "conv"}, {"write", "play"}, {"info"}, {"info", "key"}, {"info", "key", "list"},
		{"info", "key", "describe"}, {"info", "key", "conv"}, {"info", "attr"}, {"info", "attr", "list"}, {"info", "attr", "describe"},
		{"info", "chord"}, {"info", "chord", "list"}, {"info", "chord", "describe"}, {"gen"}, {"gen", "attr"}, {"midi"}} {
		cs = append(cs, c12Cmd{"help", append(append([]string{}, path...), "--help"), ""})
	}
	keys := []string{"C", "Ebm", "F#", "Cb", "G#m", "Db"}
	if thorough {
		keys = []string{"C", "G", "D", "A", "E", "B", "F#", "C#", "F", "Bb", "Eb", "Ab", "Db", "Gb", "Cb", "Am", "Em", "Bm", "F#m", "C#m", "G#m", "D#m", "Dm", "Gm", "Cm", "Fm", "Bbm", "Ebm"}
	}
	for _, k := range keys {
		cs = append(cs, c12Cmd{"info-key-describe", []string{"info", "key", "describe", "--key", k}, ""})
	}
	chains := []string{"d", "s", "p", "r", "dd", "rp", "sr"}
	allKeys := []string{"C", "G", "D", "A", "E", "B", "F#", "C#", "F", "Bb", "Eb", "Ab", "Db", "Gb", "Cb", "Am", "Em", "Bm", "F#m", "C#m", "G#m", "D#m", "Dm", "Gm", "Cm", "Fm", "Bbm", "Ebm"}
	for _, k := range allKeys {
		for _, ch := range chains {
			cs = append(cs, c12Cmd{"info-key-conv", []string{"info", "key", "conv", "--key", k, "-c", ch}, ""})
		}
	}
	return cs
}

func goBuild(repo string, args ...string) ([]byte, error) {
	cmd := exec.Command("go", args...)
	cmd.Dir = repo
	cmd.Env = append(os.Environ(), "GOFLAGS=-mod=readonly", "GOPROXY=off")
	return cmd.CombinedOutput()
}

func c12BuildMapOrder(e *Env) (bin string, sites []rewrite.Site, err error) {
	dir := filepath.Join(e.Scratch, "maporder")
	if err := os.MkdirAll(dir, 0o755); err != nil {
		return "", nil, err
	}
	overlay, sites, err := rewrite.MapOrder(e.RepoDir, dir)
	if err != nil {
		return "", nil, err
	}
	bin = filepath.Join(dir, "crd-maporder")
	if out, err := goBuild(e.RepoDir, "build", "-overlay", overlay, "-o", bin, "./cmd"); err != nil {
		return "", sites, fmt.Errorf("building the map-order variant: %v: %s", err, out)
	}
	return bin, sites, nil
}

func c12BuildSchedMain(e *Env) (bin string, res *rewrite.SchedResult, err error) {
	dir := filepath.Join(e.Scratch, "schedmain")
	if err := os.MkdirAll(dir, 0o755); err != nil {
		return "", nil, err
	}
	res, err = rewrite.SchedMain(e.RepoDir, dir)
	if err != nil {
		return "", nil, err
	}
	bin = filepath.Join(dir, "crd-sched")
	if out, err := goBuild(e.RepoDir, "build", "-overlay", res.Overlay, "-o", bin, "./cmd"); err != nil {
		return "", res, fmt.Errorf("building the scheduler variant of package main: %v: %s", err, out)
	}
	return bin, res, nil
}

func c12BuildSched(e *Env) (bin string, res *rewrite.SchedResult, err error) {
	dir := filepath.Join(e.Scratch, "sched")
	if err := os.MkdirAll(dir, 0o755); err != nil {
		return "", nil, err
	}
	res, err = rewrite.Sched(e.RepoDir, dir)
	if err != nil {
		return "", nil, err
	}
	bin = filepath.Join(dir, "sched-explore")
	if out, err := goBuild(e.RepoDir, "build", "-overlay", res.Overlay, "-o", bin, "./zz_verif_sched"); err != nil {
		return "", res, fmt.Errorf("building the scheduler variant: %v: %s", err, out)
	}
	return bin, res, nil
}

type runOut struct {
	exit   int
	stdout []byte
	bad    string
}

func c12Exec(bin string, c c12Cmd, env []string) runOut {
	r := cli.Run(cli.Opt{Bin: bin, Stdin: []byte(c.Input), Env: env}, c12Args(c.Args)...)
	o := runOut{exit: r.Exit, stdout: r.Stdout}
	if r.TimedOut {
		o.bad = "hang"
	} else if r.Crashed() {
		o.bad = "crash: " + firstLine(r.Stderr)
	}
	return o
}

var c12Base = map[string]runOut{}

func c12Key(c c12Cmd) string { return strings.Join(c.Args, " ") }

func describeDiff(a, b []byte) string {
	al, bl := strings.Split(string(a), "\n"), strings.Split(string(b), "\n")
	for i := 0; i < len(al) && i < len(bl); i++ {
		if al[i] != bl[i] {
			return fmt.Sprintf("first difference at line %d: %q vs %q", i+1, trunc(al[i], 80), trunc(bl[i], 80))
		}
	}
	return fmt.Sprintf("%d vs %d lines", len(al), len(bl))
}

// c12MapEval runs the command under one site policy and compares with the default order.
func c12MapEval(e *Env, bin string, c c12MapCase) {
	e.R.Eval(1)
	base := c12Exec(bin, c.Cmd, nil)
	got := c12Exec(bin, c.Cmd, []string{"VERIF_MAPORDER=" + c.Policy})
	site := strings.SplitN(c.Policy, "=", 2)[0]
	if got.bad != "" || base.bad != "" {
		e.R.Fail(ev.Fail{Class: "C12/map-order/crash/" + c.Cmd.Name, Msg: fmt.Sprintf("crd %s under map order %s: %s %s", c12Key(c.Cmd), c.Policy, base.bad, got.bad), Kind: "map-order", Case: c})
		return
	}
	if got.exit != base.exit || !bytes.Equal(got.stdout, base.stdout) {
		e.R.Fail(ev.Fail{Class: "C12/map-order/" + c.Cmd.Name + "/" + site, Msg: fmt.Sprintf("crd %s: output depends on the iteration order of the map at %s (policy %s): exit %d vs %d, %s", c12Key(c.Cmd), site, c.Policy, base.exit, got.exit, describeDiff(base.stdout, got.stdout)), Kind: "map-order", Case: c})
		return
	}
	e.R.Outcome(c.Cmd.Name + fmt.Sprint(len(got.stdout)))
}

// c12IOEval runs the command on one I/O path and compares with stdin -> stdout.
func c12IOEval(e *Env, c c12IOCase, base *runOut) {
	e.R.Eval(1)
	dir, err := os.MkdirTemp(e.Scratch, "io")
	if err != nil {
		panic(err)
	}
	defer os.RemoveAll(dir)
	if base == nil {
		b := c12Exec("", c.Cmd, nil)
		base = &b
	}
	args := c12Args(c.Cmd.Args)
	stdin := c.Cmd.Input
	switch c.In {
	case "dash":
		args = append(args, "-")
	case "file":
		args = append(args, writeTemp(dir, "input.txt", c.Cmd.Input))
		stdin = "this is not the input"
	case "dev-stdin":
		args = append(args, "/dev/stdin") // FILE that is not a regular file
	case "fifo":
		p := filepath.Join(dir, "input.fifo")
		if err := syscall.Mkfifo(p, 0o600); err != nil {
			panic(err)
		}
		go func(content string) {
			// give up if nobody ever opens the reading end
			f, err := os.OpenFile(p, os.O_WRONLY, 0)
			if err != nil {
				return
			}
			f.WriteString(content)
			f.Close()
		}(c.Cmd.Input)
		defer func() {
			// unblock the writer if the command never opened the FIFO
			if f, err := os.OpenFile(p, os.O_RDONLY|syscall.O_NONBLOCK, 0); err == nil {
				f.Close()
			}
		}()
		args = append(args, p)
		stdin = "this is not the input"
	}
	outFile := ""
	if c.Out == "same-file" {
		// -o names the FILE the input is read from (rewriting a piece in place)
		outFile = args[len(args)-1]
		args = append(args, "-o", outFile)
	}
	if c.Out == "file" || c.Out == "existing-file" {
		outFile = filepath.Join(dir, "out.bin")
		args = append(args, "-o", outFile)
		if c.Out == "existing-file" {
			// the -o file already exists and is longer than any result
			if err := os.WriteFile(outFile, bytes.Repeat([]byte("stale contents of an earlier run\n"), 4000), 0o644); err != nil {
				panic(err)
			}
		}
	}
	if c.Debug {
		args = append(args, "--debug")
	}
	chunks := 0
	if c.In == "stdin-chunked" {
		chunks = 3
	}
	var delay time.Duration
	if c.In == "stdin-late" {
		delay = 3 * time.Second
	}
	redirect := ""
	if c.Out == "dev-null" {
		redirect = ">/dev/null"
	}
	r := cli.Run(cli.Opt{Stdin: []byte(stdin), StdinChunks: chunks, StdinDelay: delay, Redirect: redirect}, args...)
	fail := func(class, msg string) {
		e.R.Fail(ev.Fail{Class: class, Msg: fmt.Sprintf("crd %s [input by %s, output to %s, debug %v]: %s", c12Key(c.Cmd), c.In, c.Out, c.Debug, msg), Kind: "io-path", Case: c})
	}
	if r.TimedOut || r.Crashed() {
		fail("C12/io-path/crash", firstLine(r.Stderr))
		return
	}
	if r.Exit != base.exit {
		fail("C12/io-path/status/"+c.In+"-"+c.Out, fmt.Sprintf("exit status %d, with stdin->stdout it is %d: %s", r.Exit, base.exit, firstLine(r.Stderr)))
		return
	}
	if base.exit != 0 {
		// the command fails on this input: every path must fail alike and print no result
		if len(r.Stdout) != 0 {
			if c.Debug && goyaccDebugOnly(r.Stdout) {
				fail("C12/io-path/goyacc-debug-lines", fmt.Sprintf("--debug changes stdout of a failing command: %q", trunc(string(r.Stdout), 80)))
			} else {
				fail("C12/io-path/stdout-on-failure/"+c.In+"-"+c.Out, fmt.Sprintf("a result on stdout although the command fails: %q", trunc(string(r.Stdout), 80)))
			}
		}
		return
	}
	got := r.Stdout
	if c.Out == "dev-null" {
		return // a character device swallows the result; the status was compared
	}
	if outFile != "" {
		b, err := os.ReadFile(outFile)
		if err != nil {
			fail("C12/io-path/no-output-file", err.Error())
			return
		}
		if len(r.Stdout) != 0 {
			fail("C12/io-path/stdout-besides-file/"+c.Cmd.Name, fmt.Sprintf("-o given but %d bytes also appear on stdout: %q", len(r.Stdout), trunc(string(r.Stdout), 80)))
			return
		}
		got = b
	}
	if !bytes.Equal(got, base.stdout) {
		cl := "C12/io-path/bytes/" + c.In + "-" + c.Out
		if c.Debug {
			cl += "/debug"
		}
		fail(cl, "result differs from stdin->stdout: "+describeDiff(base.stdout, got))
	}
}

func c12Repeat(e *Env, c c12Cmd) {
	base := c12Exec("", c, nil)
	n := 5
	if strings.HasPrefix(c.Name, "text-conv-long") {
		n = 25
	}
	for _, gmp := range []string{"1", "2", "16"} {
		for i := 0; i < n; i++ {
			e.R.Eval(1)
			got := c12Exec("", c, []string{"GOMAXPROCS=" + gmp})
			if got.bad == "hang" {
				e.R.Fail(ev.Fail{Class: "C12/repeat/hang/" + c.Name, Msg: fmt.Sprintf("crd %s: run %d under GOMAXPROCS=%s does not terminate (other runs do)", c12Key(c), i, gmp), Kind: "repeat", Case: c})
				return
			}
			if got.bad != "" || got.exit != base.exit || !bytes.Equal(got.stdout, base.stdout) {
				e.R.Fail(ev.Fail{Class: "C12/repeat/" + c.Name, Msg: fmt.Sprintf("crd %s: run %d under GOMAXPROCS=%s differs from the first run: %s %s", c12Key(c), i, gmp, got.bad, describeDiff(base.stdout, got.stdout)), Kind: "repeat", Case: c})
				return
			}
		}
	}
}

type c12SchedMainCase struct {
	Mode     string `json:"mode"`
	Key      string `json:"key"`
	Text     string `json:"text"`
	Bound    int    `json:"bound"`
	Schedule []int  `json:"schedule,omitempty"`
	Outcome  string `json:"outcome,omitempty"`
	Want     string `json:"want,omitempty"`
}

func c12SchedMain(e *Env) {
	bin, res, err := c12BuildSchedMain(e)
	switch {
	case err != nil:
		e.R.AddPart(ev.Part{Name: "schedules-text-conv", Enumerated: "skipped: the scheduler variant of package main does not build: " + trunc(err.Error(), 400), Exhaustive: false})
		return
	case len(res.Refused) > 0:
		e.R.AddPart(ev.Part{Name: "schedules-text-conv", Enumerated: "no verdict: constructs the scheduler does not model: " + strings.Join(res.Refused, "; "), Exhaustive: false})
		return
	}
	prog := func(n int, keyEvery int) string {
		var b strings.Builder
		for k := 0; k < n; k++ {
			b.WriteString([]string{"C[1] ", "E/G#[1] ", "Bb_7[1,1/2] ", "F#m[1]{txt=a} "}[k%4])
			if keyEvery > 0 && k%keyEvery == keyEvery/2 {
				b.WriteString("G[1]{key=" + []string{"G", "Eb", "F#m", "Cb"}[(k/keyEvery)%4] + "} ")
			}
		}
		return b.String()
	}
	cases := []c12SchedMainCase{
		{"syllable", "C", "C[1] G[1]", 5, nil, "", ""},
		{"degree", "", "1[1] R[1]", 5, nil, "", ""},
		{"syllable", "C", "C[1] 2[1]", 5, nil, "", ""},
		{"syllable", "C", "C[1] G_7/B[1]{key=G} D[1]", 3, nil, "", ""},
		{"syllable", "Eb", prog(12, 5), 2, nil, "", ""},
		// long texts: bound 0 still explores every choice at blocking points (which worker runs first), for free
		{"syllable", "C", prog(300, 97), 0, nil, "", ""},
		{"degree", "", strings.Repeat("1[1] 5_7/3[2]{bpm=90} R[1] ", 90), 0, nil, "", ""},
	}
	if e.Thorough {
		cases[0].Bound = -1
		cases[3].Bound = 5
		cases[4].Bound = 3
		cases[5].Bound = 1
		cases[6].Bound = 1
		cases = append(cases, c12SchedMainCase{"syllable", "F#", prog(600, 50), 1, nil, "", ""})
	}
	type result struct {
		Executions int            `json:"executions"`
		MaxPoints  int            `json:"max_points"`
		Outcomes   map[string]int `json:"outcomes"`
		Want       string         `json:"want"`
		Capped     bool           `json:"capped"`
		Violations []struct {
			Schedule []int  `json:"schedule"`
			Outcome  string `json:"outcome"`
			Want     string `json:"want"`
			What     string `json:"what"`
		} `json:"violations"`
	}
	results := make([]result, len(cases))
	errs := make([]string, len(cases))
	mc.ParFor(len(cases), func(i int) {
		c := cases[i]
		ctx, cancel := context.WithTimeout(context.Background(), 20*time.Minute)
		maxExec := "400000"
		if e.Thorough {
			maxExec = "3000000"
		}
		cmd := exec.CommandContext(ctx, bin, fmt.Sprint(c.Bound), maxExec, c.Mode, c.Key, c.Text)
		cmd.Env = append(os.Environ(), "VERIF_SCHED=1", "GOMAXPROCS=4", "VERIF_SCHED_SECONDS="+map[bool]string{true: "900", false: "45"}[e.Thorough])
		out, err := cmd.Output()
		timedOut := ctx.Err() == context.DeadlineExceeded
		cancel()
		switch {
		case timedOut:
			errs[i] = "explorer stopped after 20 minutes"
		case err != nil:
			errs[i] = fmt.Sprintf("%v: %s", err, trunc(string(out), 300))
		default:
			if err := json.Unmarshal(out, &results[i]); err != nil {
				errs[i] = err.Error() + ": " + trunc(string(out), 200)
			}
		}
	})
	var execs int64
	exh := true
	var notes []string
	for i, c := range cases {
		if strings.HasPrefix(errs[i], "explorer stopped") {
			exh = false
			e.R.NotExhaustive(errs[i])
			continue
		}
		if errs[i] != "" {
			e.R.Fail(ev.Fail{Class: "C12/schedule/explorer-crash", Msg: fmt.Sprintf("exploring text conv %s on %q: %s", c.Mode, trunc(c.Text, 60), errs[i]), Kind: "schedule-text-conv", Case: c})
			continue
		}
		r := results[i]
		execs += int64(r.Executions)
		e.R.Eval(int64(r.Executions))
		e.R.Transition(int64(r.Executions))
		if r.Capped {
			exh = false
		}
		notes = append(notes, fmt.Sprintf("%s %d chords bound %d: %d schedules, %d points, reference outcome %q", c.Mode, strings.Count(c.Text, "["), c.Bound, r.Executions, r.MaxPoints, trunc(r.Want, 40)))
		for _, v := range r.Violations {
			cl := "C12/schedule/text-conv-outcome"
			switch {
			case strings.Contains(v.Outcome, "DEADLOCK"):
				cl = "C12/schedule/deadlock"
			case strings.Contains(v.Outcome, "PANIC") || strings.Contains(v.Outcome, "panic"):
				cl = "C12/schedule/panic"
			case strings.Contains(v.What, "NONDETERMINISTIC"):
				cl = "C12/schedule/harness-nondeterminism"
			}
			cc := c
			cc.Schedule, cc.Outcome, cc.Want = v.Schedule, v.Outcome, v.Want
			e.R.Fail(ev.Fail{Class: cl, Msg: fmt.Sprintf("text conv %s on %q under schedule %v: %s (%s); under the default schedule: %s", c.Mode, trunc(c.Text, 60), v.Schedule, v.Outcome, v.What, v.Want), Kind: "schedule-text-conv", Case: cc})
		}
	}
	if execs == 0 && exh && e.R.FailCount() == 0 {
		panic("C12 harness: the text-conv schedule exploration ran no execution")
	}
	e.R.AddPart(ev.Part{Name: "schedules-text-conv", Enumerated: fmt.Sprintf("the whole `text conv` path (parseText, classification, conversion, marshalling) driven from inside package main under the cooperative scheduler (%d synchronisation sites rewritten in %v): <= 5 preemptions (all interleavings in thorough) for 2-chord texts, preemption-bounded for 3, 14, 270 and 300+ chord texts with key changes (more than 256 chords, so that chunked/parallel conversion would engage); every schedule must give the bytes and verdict of the default schedule, no deadlock, no panic", res.Points, res.Rewritten), Executions: execs, States: int64(len(cases)), Transitions: execs, Exhaustive: exh, Note: strings.Join(notes, " | ")})
}

// ---- every command under the scheduler

type c12SchedCmdCase struct {
	Cmd      c12Cmd `json:"cmd"`
	Bound    int    `json:"bound"`
	Schedule []int  `json:"schedule,omitempty"`
	Outcome  string `json:"outcome,omitempty"`
	Want     string `json:"want,omitempty"`
}

type c12SchedCmdResult struct {
	Executions int            `json:"executions"`
	MaxPoints  int            `json:"max_points"`
	Outcomes   map[string]int `json:"outcomes"`
	Want       string         `json:"want"`
	Outcome    string         `json:"outcome"`
	Capped     bool           `json:"capped"`
	Violations []struct {
		Schedule []int  `json:"schedule"`
		Outcome  string `json:"outcome"`
		Want     string `json:"want"`
		What     string `json:"what"`
	} `json:"violations"`
	raw string
	err string
}

var c12SchedCmdSeq int64

func c12SchedCmdRun(bin string, c c12SchedCmdCase, maxExec, seconds string, schedule []int) c12SchedCmdResult {
	n := atomic.AddInt64(&c12SchedCmdSeq, 1)
	stdin := writeTemp(cli.Scratch, fmt.Sprintf("c12-schedcmd-%d.in", n), c.Cmd.Input)
	aj, _ := json.Marshal(c12Args(c.Cmd.Args))
	args := []string{fmt.Sprint(c.Bound), maxExec, "cmd", stdin, string(aj)}
	if schedule != nil {
		sj, _ := json.Marshal(schedule)
		args = append(args, string(sj))
	}
	ctx, cancel := context.WithTimeout(context.Background(), 20*time.Minute)
	cmd := exec.CommandContext(ctx, bin, args...)
	cmd.Env = append(os.Environ(), "VERIF_SCHED=1", "GOMAXPROCS=2", "VERIF_SCHED_SECONDS="+seconds)
	out, err := cmd.Output()
	timedOut := ctx.Err() == context.DeadlineExceeded
	cancel()
	var r c12SchedCmdResult
	r.raw = strings.TrimSpace(string(out))
	switch {
	case timedOut:
		r.err = "explorer stopped after 20 minutes"
	case err != nil:
		r.err = fmt.Sprintf("%v: %s", err, trunc(string(out), 300))
	default:
		if err := json.Unmarshal(out, &r); err != nil {
			r.err = err.Error() + ": " + trunc(string(out), 200)
		}
	}
	for _, f := range []string{stdin, stdin + ".out", stdin + ".err"} {
		os.Remove(f)
	}
	return r
}

func c12SchedCommands(e *Env, cmds []c12Cmd) {
	const part = "schedules-every-command"
	bin, res, err := c12BuildSchedMain(e)
	switch {
	case err != nil:
		e.R.AddPart(ev.Part{Name: part, Enumerated: "skipped: the scheduler variant of package main does not build: " + trunc(err.Error(), 400), Exhaustive: false})
		return
	case len(res.Refused) > 0:
		e.R.AddPart(ev.Part{Name: part, Enumerated: "no verdict: constructs the scheduler does not model: " + strings.Join(res.Refused, "; "), Exhaustive: false})
		return
	}
	// one representative per command name and input size class; key describe / key conv once per key is the business of the map-order part
	seen := map[string]int{}
	var cases []c12SchedCmdCase
	for _, c := range cmds {
		if seen[c.Name] >= 2 && !e.Thorough || seen[c.Name] >= 6 {
			continue
		}
		seen[c.Name]++
		b := 2
		if len(c.Input) > 2000 {
			b = 0
		}
		if e.Thorough && b > 0 {
			b = 3
		}
		cases = append(cases, c12SchedCmdCase{Cmd: c, Bound: b})
	}
	maxExec, seconds := "20000", "8"
	if e.Thorough {
		maxExec, seconds = "400000", "120"
	}
	results := make([]c12SchedCmdResult, len(cases))
	mc.ParFor(len(cases), func(i int) { results[i] = c12SchedCmdRun(bin, cases[i], maxExec, seconds, nil) })
	var execs, concurrent int64
	exh := true
	var notes []string
	for i, c := range cases {
		r := results[i]
		line := "crd " + strings.Join(c.Cmd.Args, " ")
		if strings.HasPrefix(r.err, "explorer stopped") {
			exh = false
			e.R.NotExhaustive(r.err)
			continue
		}
		if r.err != "" {
			e.R.Fail(ev.Fail{Class: "C12/schedule/explorer-crash", Msg: fmt.Sprintf("exploring %s: %s", line, r.err), Kind: "schedule-command", Case: c})
			continue
		}
		execs += int64(r.Executions)
		e.R.Eval(int64(r.Executions))
		e.R.Transition(int64(r.Executions))
		if r.Capped {
			exh = false
		}
		if r.MaxPoints > 0 {
			concurrent++
			e.R.NonTrivialN(int64(r.Executions))
			notes = append(notes, fmt.Sprintf("%s: %d schedules, %d points (bound %d)", c.Cmd.Name, r.Executions, r.MaxPoints, c.Bound))
		}
		for _, v := range r.Violations {
			cl := "C12/schedule/command-outcome"
			switch {
			case strings.Contains(v.Outcome, "DEADLOCK"):
				cl = "C12/schedule/deadlock"
			case strings.Contains(v.Outcome, "PANIC") || strings.Contains(v.Outcome, "panic"):
				cl = "C12/schedule/panic"
			case strings.Contains(v.What, "NONDETERMINISTIC"):
				cl = "C12/schedule/harness-nondeterminism"
			}
			cc := c
			cc.Schedule, cc.Outcome, cc.Want = v.Schedule, v.Outcome, v.Want
			e.R.Fail(ev.Fail{Class: cl, Msg: fmt.Sprintf("%s under schedule %v: %s (%s); under the default schedule: %s", line, v.Schedule, v.Outcome, v.What, v.Want), Kind: "schedule-command", Case: cc})
		}
	}
	if execs == 0 && exh && e.R.FailCount() == 0 {
		panic("C12 harness: the command schedule exploration ran no execution")
	}
	e.R.AddPart(ev.Part{Name: part, Enumerated: fmt.Sprintf("%d command lines (every subcommand: text parse/conv, write, write event/parse/conv, info key/attr/chord list/describe/conv, gen; built-in and user dictionaries) executed through cobra inside package main under the cooperative scheduler, stdin and stdout redirected to files; preemption bound 2 (3 in thorough; 0 for inputs over 2 kB), each schedule must give the verdict and stdout bytes of the default schedule, no deadlock, no panic; %d of them reach a scheduling point at all (the others run no goroutine, channel or lock: one schedule)", len(cases), concurrent), Executions: execs, States: int64(len(cases)), Transitions: execs, Exhaustive: exh, Note: strings.Join(notes, " | ")})
}

func runC12(e *Env) {
	e.R.Rule = "the two real sources of nondeterminism are put under the explorer's control: (1) map iteration order - every range over a map and maps.Keys/Values call is rewritten (overlay, from the working tree) to a site-controlled order; for every command-input every site it reaches is driven through all rotations of the sorted and of the reversed key order; (2) goroutine scheduling - the iterator behind AST classification is rewritten to a cooperative scheduler and all schedules within a preemption bound are enumerated; plus the finite product of I/O paths {stdin, -, FILE} x {stdout, -o} x {--debug off, on}. distinct = (command-input, policy | path | schedule); non-trivial = a run whose policy/path/schedule differs from the default"
	e.R.Assume("scheduling points = the synchronisation operations (go, channel send/receive/close/range, mutex); unsynchronised accesses are the business of the supplementary free-running -race pass; the family F(n) of orders (n rotations of the sorted order and n of the reversed one) puts every key first and every pair in both relative orders")
	cmds := c12Commands(e.Thorough)

	// ---- (1) map iteration order
	bin, sites, err := c12BuildMapOrder(e)
	if err != nil {
		e.R.Note("map-order instrumentation unavailable: " + err.Error())
		e.R.AddPart(ev.Part{Name: "map-order", Enumerated: "skipped: the rewritten tree does not build: " + trunc(err.Error(), 300), Exhaustive: false})
	} else {
		var ids []string
		for _, s := range sites {
			ids = append(ids, s.ID+"("+s.Kind+")")
		}
		e.R.Note(fmt.Sprintf("%d static map-iteration sites: %s", len(sites), strings.Join(ids, " ")))
		var mcases []c12MapCase
		var reached int64
		perCmd := make([][]c12MapCase, len(cmds))
		mc.ParFor(len(cmds), func(i int) {
			c := cmds[i]
			// which sites does this command-input reach, with which map sizes?
			tf := filepath.Join(e.Scratch, fmt.Sprintf("trace%d", i))
			_ = c12Exec(bin, c, []string{"VERIF_MAPTRACE=" + tf})
			tb, _ := os.ReadFile(tf)
			os.Remove(tf)
			size := map[string]int{}
			for _, l := range strings.Split(string(tb), "\n") {
				var s string
				var n int
				if _, err := fmt.Sscanf(l, "%s %d", &s, &n); err == nil && n > size[s] {
					size[s] = n
				}
			}
			// the unrewritten binary must agree with the default order (else the default itself is order-dependent)
			plain := c12Exec("", c, nil)
			def := c12Exec(bin, c, nil)
			e.R.Eval(1)
			if plain.exit != def.exit || !bytes.Equal(plain.stdout, def.stdout) {
				e.R.Fail(ev.Fail{Class: "C12/map-order/" + c.Name + "/plain-binary", Msg: fmt.Sprintf("crd %s: the plain binary prints something else than the variant with sorted map iteration: %s", c12Key(c), describeDiff(def.stdout, plain.stdout)), Kind: "map-order", Case: c12MapCase{c, ""}})
			}
			var ss []string
			for s := range size {
				ss = append(ss, s)
			}
			sort.Strings(ss)
			for _, s := range ss {
				n := size[s]
				if n < 2 {
					continue
				}
				atomic.AddInt64(&reached, 1)
				for rev := 0; rev <= 1; rev++ {
					for k := 0; k < n; k++ {
						if rev == 0 && k == 0 {
							continue
						}
						perCmd[i] = append(perCmd[i], c12MapCase{c, fmt.Sprintf("%s=%d/%d", s, rev, k)})
					}
				}
			}
			if e.Thorough {
				// two deviating sites, reduced family
				for a := 0; a < len(ss); a++ {
					for b := a + 1; b < len(ss); b++ {
						if size[ss[a]] < 2 || size[ss[b]] < 2 {
							continue
						}
						for _, pa := range []string{"1/0", "0/1"} {
							for _, pb := range []string{"1/0", "0/1", "1/1"} {
								perCmd[i] = append(perCmd[i], c12MapCase{c, fmt.Sprintf("%s=%s,%s=%s", ss[a], pa, ss[b], pb)})
							}
						}
					}
				}
			}
		})
		for _, p := range perCmd {
			mcases = append(mcases, p...)
		}
		mc.ParFor(len(mcases), func(i int) {
			c12MapEval(e, bin, mcases[i])
			e.R.Trace(1)
			e.R.Transition(1)
			e.R.NonTrivial("map" + fmt.Sprint(i))
			e.R.State("site-policy:" + mcases[i].Policy)
		})
		e.R.AddPart(ev.Part{Name: "map-order", Enumerated: fmt.Sprintf("%d command-inputs x every map-iteration site each reaches (%d (command, site) pairs with >= 2 keys) x all 2n-1 non-default members of F(n)%s; each vector = one run of the rewritten binary, compared byte-for-byte with the default order and with the unrewritten binary", len(cmds), reached, map[bool]string{true: "; plus all pairs of deviating sites over a reduced family", false: ""}[e.Thorough]), Executions: int64(len(mcases) + 2*len(cmds)), States: int64(len(sites)), Transitions: int64(len(mcases)), Exhaustive: true})
	}

	// ---- (2) goroutine schedules
	sbin, sres, err := c12BuildSched(e)
	switch {
	case err != nil:
		e.R.AddPart(ev.Part{Name: "schedules", Enumerated: "skipped: the scheduler variant does not build: " + trunc(err.Error(), 400), Exhaustive: false})
	case len(sres.Refused) > 0:
		e.R.AddPart(ev.Part{Name: "schedules", Enumerated: "no verdict: constructs the scheduler does not model: " + strings.Join(sres.Refused, "; "), Exhaustive: false})
	default:
		chord := func(n int, badAt int, badBass bool) string {
			var b strings.Builder
			for k := 0; k < n; k++ {
				switch {
				case k == badAt && badBass:
					b.WriteString("C/2[1] ")
				case k == badAt:
					b.WriteString("2[1] ")
				default:
					b.WriteString("C/E[1] ")
				}
			}
			return b.String()
		}
		type tree struct {
			text  string
			bound int
		}
		full := -1
		trees := []tree{
			{"C[1]", full}, {"C[1] D[1]", full}, {"R[1]", full}, {"2[1] C[1]", full}, {"C[1] 2[1]", full}, {"C/2[1]", full}, {"R[1] R[2]", full},
			{chord(8, -1, false), 2}, {chord(8, 1, false), 2}, {chord(8, 7, false), 2}, {chord(8, 3, true), 2},
			{chord(40, -1, false), 1}, {chord(40, 1, false), 1}, {chord(40, 39, true), 1},
		}
		if e.Thorough {
			for i := range trees {
				if trees[i].bound >= 0 {
					trees[i].bound++
				}
			}
			trees = append(trees, tree{"C[1] D[1] E[1]", 5}, tree{"C[1] 2[1] E[1]", 5}, tree{chord(120, 60, false), 1}, tree{chord(120, 119, true), 1})
		}
		type sres2 struct {
			Executions int            `json:"executions"`
			MaxPoints  int            `json:"max_points"`
			Outcomes   map[string]int `json:"outcomes"`
			Want       string         `json:"want"`
			Capped     bool           `json:"capped"`
			Leaked     int            `json:"runs_with_leaked_threads"`
			Violations []struct {
				Schedule []int  `json:"schedule"`
				Outcome  string `json:"outcome"`
				Want     string `json:"want"`
				What     string `json:"what"`
			} `json:"violations"`
		}
		results := make([]sres2, len(trees))
		errs := make([]string, len(trees))
		mc.ParFor(len(trees), func(i int) {
			t := trees[i]
			ctx, cancel := context.WithTimeout(context.Background(), 20*time.Minute)
			maxExec := "1000000"
			if e.Thorough {
				maxExec = "20000000"
			}
			cmd := exec.CommandContext(ctx, sbin, fmt.Sprint(t.bound), maxExec, t.text)
			cmd.Env = append(os.Environ(), "GOMAXPROCS=2", "VERIF_SCHED_SECONDS="+map[bool]string{true: "900", false: "45"}[e.Thorough])
			out, err := cmd.Output()
			timedOut := ctx.Err() == context.DeadlineExceeded
			cancel()
			if timedOut {
				errs[i] = "explorer stopped after 20 minutes (no verdict for this tree)"
				return
			}
			if err != nil {
				errs[i] = fmt.Sprintf("%v: %s", err, trunc(string(out), 200))
				return
			}
			if err := json.Unmarshal(out, &results[i]); err != nil {
				errs[i] = err.Error()
			}
		})
		var execs int64
		exh := true
		var notes []string
		for i, t := range trees {
			if strings.HasPrefix(errs[i], "explorer stopped") {
				exh = false
				e.R.NotExhaustive(errs[i])
				continue
			}
			if errs[i] != "" {
				e.R.Fail(ev.Fail{Class: "C12/schedule/explorer-crash", Msg: fmt.Sprintf("exploring %q: %s", trunc(t.text, 60), errs[i]), Kind: "schedule", Case: c12SchedCase{Text: t.text, Bound: t.bound}})
				continue
			}
			r := results[i]
			execs += int64(r.Executions)
			e.R.Eval(int64(r.Executions))
			e.R.Transition(int64(r.Executions))
			if r.Capped {
				exh = false
			}
			for k := range r.Outcomes {
				e.R.Outcome("sched:" + k)
			}
			notes = append(notes, fmt.Sprintf("%d chords bound %d: %d schedules, %d points, leaked-producer runs %d", strings.Count(t.text, "["), t.bound, r.Executions, r.MaxPoints, r.Leaked))
			for _, v := range r.Violations {
				cl := "C12/schedule/outcome"
				switch {
				case strings.Contains(v.Outcome, "DEADLOCK"):
					cl = "C12/schedule/deadlock"
				case strings.Contains(v.Outcome, "PANIC") || strings.Contains(v.Outcome, "panic"):
					cl = "C12/schedule/panic"
				case strings.Contains(v.What, "NONDETERMINISTIC"):
					cl = "C12/schedule/harness-nondeterminism"
				}
				e.R.Fail(ev.Fail{Class: cl, Msg: fmt.Sprintf("classifying %q under schedule %v: %s (%s), the sequential reference walk says %s", trunc(t.text, 60), v.Schedule, v.Outcome, v.What, v.Want), Kind: "schedule", Case: c12SchedCase{Text: t.text, Bound: t.bound, Schedule: v.Schedule, Outcome: v.Outcome, Want: v.Want}})
			}
			e.R.NonTrivial("sched" + fmt.Sprint(i))
		}
		if execs == 0 && exh && e.R.FailCount() == 0 {
			panic("C12 harness: the schedule exploration ran no execution")
		}
		e.R.AddPart(ev.Part{Name: "schedules", Enumerated: fmt.Sprintf("ASTTypeClassifier.Classify under the cooperative scheduler (%d synchronisation sites rewritten in %v): all interleavings for trees of <= 2 chords; preemption-bounded for 8 and 40 chords (consistent, inconsistent at the 2nd/last chord and in a bass; > 100 nodes so that the producer blocks on the full buffer); outcome compared with a sequential reference walk, deadlock and panic detection, failing schedules replayed twice", sres.Points, sres.Rewritten), Executions: execs, States: int64(len(trees)), Transitions: execs, Exhaustive: exh, Note: strings.Join(notes, " | ")})
		e.R.Sample(map[string]any{"part": "schedules", "tree": "C[1] 2[1]", "schedule": "[0 0 1 0 1 ...] = index into the enabled-thread list at every synchronisation point", "oracle": "error (inconsistent), no deadlock, no panic"})
	}

	// ---- (2b) the whole `text conv` path, goroutines in package main included
	c12SchedMain(e)
	c12SchedCommands(e, cmds)

	// ---- (3) I/O paths
	var ios []c12IOCase
	seenIO := map[string]bool{}
	for _, c := range cmds {
		if c.Name == "help" || c.Name == "midi-port" {
			// a help text is not a result: it goes to stdout whatever -o says; `midi port` lists what the
			// driver offers and is not among the data-producing commands the statement names (it ignores -o)
			continue
		}
		if c.Name == "info-key-conv" && !(strings.Contains(c12Key(c), "--key E ") || strings.Contains(c12Key(c), "--key C ")) {
			continue
		}
		ins := []string{"stdin"}
		if c.Input != "" {
			ins = []string{"stdin", "dash", "file", "stdin-chunked", "fifo", "dev-stdin"}
		}
		for _, in := range ins {
			for _, out := range []string{"stdout", "file", "existing-file"} {
				for _, dbg := range []bool{false, true} {
					ios = append(ios, c12IOCase{c, in, out, dbg})
				}
			}
			if in == "file" {
				ios = append(ios, c12IOCase{c, in, "same-file", false})
			}
		}
		// once per command: the result goes to a character device; the input comes from a slow producer
		if !seenIO[c.Name] {
			seenIO[c.Name] = true
			ios = append(ios, c12IOCase{c, "stdin", "dev-null", false})
			if c.Input != "" && len(c.Input) < 2000 {
				ios = append(ios, c12IOCase{c, "stdin-late", "stdout", false})
			}
		}
	}
	mc.ParFor(len(ios), func(i int) {
		c12IOEval(e, ios[i], nil)
		e.R.Trace(1)
		e.R.NonTrivial("io" + fmt.Sprint(i))
	})
	e.R.AddPart(ev.Part{Name: "io-paths", Enumerated: "every data-producing command x input by {stdin, -, FILE, stdin delivered in three pieces by a slow writer, FILE = a named pipe, FILE = /dev/stdin} (where it reads one) x output to {stdout, -o new file, -o existing longer file, -o the input FILE itself} x --debug {off, on}; once per command: stdout is /dev/null (a character device), stdin's first byte arrives after 3 s: result bytes and status equal to stdin->stdout", Executions: int64(len(ios)), Exhaustive: true})

	// ---- (4) supplementary, not deciding: repetition under GOMAXPROCS 1, 2, 16
	var reps []c12Cmd
	seen := map[string]bool{}
	for _, c := range cmds {
		if !seen[c.Name] || c.Name == "info-key-conv" && strings.HasSuffix(c12Key(c), " d") {
			seen[c.Name] = true
			reps = append(reps, c)
		}
	}
	// long mixed-notation texts: the classifier exits early while the producer still has > 100 nodes to deliver
	longText := func(n, badAt int) string {
		var b strings.Builder
		for k := 0; k < n; k++ {
			if k == badAt {
				b.WriteString("2[1] ")
			} else {
				b.WriteString("C/E[1,1/2]{a=b} ")
			}
		}
		return b.String()
	}
	for _, bad := range []int{1, 30, 149} {
		reps = append(reps, c12Cmd{"text-conv-long-mixed", []string{"text", "conv", "syllable"}, longText(150, bad)})
	}
	reps = append(reps, c12Cmd{"text-conv-long", []string{"text", "conv", "syllable"}, longText(150, -1)})
	// many chords with key changes in between (a converter shared between workers would show here)
	var kc strings.Builder
	for k := 0; k < 700; k++ {
		kc.WriteString([]string{"C[1] ", "E/G#[1] ", "Bb_7[1] ", "F#m[1] "}[k%4])
		if k%97 == 50 {
			kc.WriteString("G[1]{key=" + []string{"G", "Eb", "F#m", "Cb"}[(k/97)%4] + "} ")
		}
	}
	reps = append(reps, c12Cmd{"text-conv-long-key-changes", []string{"text", "conv", "syllable"}, kc.String()})
	mc.ParFor(len(reps), func(i int) { c12Repeat(e, reps[i]) })
	// the environment is no input: other locale, time zone, home, temp dir, working directory; and a later point in time
	envs := [][]string{
		{"LANG=de_DE.UTF-8", "LC_ALL=de_DE.UTF-8", "TZ=Asia/Tokyo"},
		{"LANG=C", "LC_ALL=C", "TZ=America/St_Johns", "NO_COLOR=1", "TERM=dumb", "COLUMNS=20"},
		{"HOME=/nonexistent", "TMPDIR=/nonexistent", "USER=nobody", "XDG_CONFIG_HOME=/nonexistent"},
	}
	otherDir, _ := os.MkdirTemp(e.Scratch, "cwd")
	firstRun := make([]runOut, len(reps))
	for i := range reps {
		firstRun[i] = c12Exec("", reps[i], nil)
	}
	mc.ParFor(len(reps), func(i int) {
		c := reps[i]
		for vi, env := range envs {
			e.R.Eval(1)
			r := cli.Run(cli.Opt{Stdin: []byte(c.Input), Env: env, Dir: map[bool]string{true: otherDir, false: ""}[vi%2 == 0]}, c12Args(c.Args)...)
			if r.Exit != firstRun[i].exit || !bytes.Equal(r.Stdout, firstRun[i].stdout) {
				e.R.Fail(ev.Fail{Class: "C12/environment/" + c.Name, Msg: fmt.Sprintf("crd %s: the result depends on the environment (%v, working directory %v): %s", c12Key(c), env, vi%2 == 0, describeDiff(firstRun[i].stdout, r.Stdout)), Kind: "repeat", Case: c})
				return
			}
		}
	})
	time.Sleep(2100 * time.Millisecond) // a result that embeds the time of day differs by now
	mc.ParFor(len(reps), func(i int) {
		e.R.Eval(1)
		r := c12Exec("", reps[i], nil)
		if r.exit != firstRun[i].exit || !bytes.Equal(r.stdout, firstRun[i].stdout) {
			e.R.Fail(ev.Fail{Class: "C12/repeat-later/" + reps[i].Name, Msg: fmt.Sprintf("crd %s: the result differs two seconds later: %s", c12Key(reps[i]), describeDiff(firstRun[i].stdout, r.stdout)), Kind: "repeat", Case: reps[i]})
		}
	})
	e.R.AddPart(ev.Part{Name: "repetition (supplementary)", Enumerated: "free-running: each command 5 times (long texts with an early classification error: 25 times) under GOMAXPROCS 1, 2 and 16, byte-compared, hang watchdog (evidence, not the deciding step); each also under 3 other environments (locale, time zone, HOME/TMPDIR, working directory) and once more two seconds later", Executions: int64(15 * len(reps)), Exhaustive: true})
	if e.Thorough {
		c12Race(e, cmds)
	}
}

// c12Race: a separate free-running pass with the race detector (a cooperative scheduler hides races from it).
func c12Race(e *Env, cmds []c12Cmd) {
	bin := filepath.Join(e.Scratch, "crd-race")
	if out, err := goBuild(e.RepoDir, "build", "-race", "-o", bin, "./cmd"); err != nil {
		e.R.AddPart(ev.Part{Name: "race-detector (supplementary)", Enumerated: "skipped: -race build failed: " + trunc(string(out), 200), Exhaustive: false})
		return
	}
	var n int64
	mc.ParFor(len(cmds), func(i int) {
		c := cmds[i]
		if c.Name == "info-key-conv" && i%9 != 0 {
			return
		}
		r := cli.Run(cli.Opt{Bin: bin, Stdin: []byte(c.Input), Timeout: 60e9}, c12Args(c.Args)...)
		atomic.AddInt64(&n, 1)
		if strings.Contains(string(r.Stderr), "DATA RACE") {
			e.R.Fail(ev.Fail{Class: "C12/data-race/" + c.Name, Msg: fmt.Sprintf("crd %s: the race detector reports a data race: %s", c12Key(c), firstLineWith(r.Stderr, "Write at", "Read at", "Previous")), Kind: "repeat", Case: c})
		}
	})
	e.R.AddPart(ev.Part{Name: "race-detector (supplementary)", Enumerated: "free-running -race build of the binary, every command once", Executions: n, Exhaustive: true})
}
