// Package props holds one check per property.
package props

import (
	"encoding/json"
	"fmt"
	"sort"

	"verif/ev"
)

// Env is what a check gets.
type Env struct {
	R        *ev.Run
	Thorough bool
	Seed     int
	VerifDir string
	RepoDir  string
	Scratch  string
}

// Prop is a registered check.
type Prop struct {
	ID     string
	Run    func(e *Env)
	Replay map[string]func(e *Env, raw json.RawMessage) // by case kind
}

var registry = map[string]*Prop{}

func register(p *Prop) {
	// case kinds shared by several checks
	if p.Replay == nil {
		p.Replay = map[string]func(e *Env, raw json.RawMessage){}
	}
	if _, ok := p.Replay["yaml-form"]; !ok {
		p.Replay["yaml-form"] = func(e *Env, raw json.RawMessage) { yamlFormEval(e, decode[yamlFormCase](raw)) }
	}
	registry[p.ID] = p
}

// Get returns the check for id.
func Get(id string) *Prop { return registry[id] }

// IDs lists the registered checks.
func IDs() []string {
	var r []string
	for k := range registry {
		r = append(r, k)
	}
	sort.Strings(r)
	return r
}

func mustJSON(v any) string {
	b, err := json.Marshal(v)
	if err != nil {
		return fmt.Sprint(v)
	}
	return string(b)
}

// decode helps replay functions.
func decode[T any](raw json.RawMessage) T {
	var t T
	if err := json.Unmarshal(raw, &t); err != nil {
		panic(fmt.Sprintf("replay file: cannot decode case: %v", err))
	}
	return t
}
