package props

import (
	"bytes"
	"errors"
	"fmt"
	"os"
	"path/filepath"
	"sync"

	"github.com/berquerant/crd/chord"
	"github.com/berquerant/crd/input"
	"github.com/berquerant/crd/midix"
	"github.com/berquerant/crd/op"
	"github.com/berquerant/crd/play"
	"github.com/berquerant/crd/util"
	"gopkg.in/yaml.v3"

	"verif/cli"
	"verif/ref/dict"
	refplay "verif/ref/play"
	"verif/ref/smf"
)

// writeCfg is the configuration of one `crd write` run.
type writeCfg struct {
	Tracks     int           `json:"tracks"`
	Instrument *string       `json:"instrument,omitempty"`
	Program    *int          `json:"program,omitempty"`
	Flags      refplay.Flags `json:"flags"`
	AttrFiles  []string      `json:"attr_files,omitempty"`
	ChordFiles []string      `json:"chord_files,omitempty"`
}

func (c writeCfg) args() []string {
	var a []string
	if c.Tracks != 0 && c.Tracks != 1 {
		a = append(a, "--track", fmt.Sprint(c.Tracks))
	}
	if c.Instrument != nil {
		a = append(a, "--instrument", *c.Instrument)
	}
	if c.Program != nil {
		a = append(a, "--program", fmt.Sprint(*c.Program))
	}
	a = append(a, c.Flags.Args()...)
	for _, f := range c.AttrFiles {
		a = append(a, "--attr", f)
	}
	for _, f := range c.ChordFiles {
		a = append(a, "--chord", f)
	}
	return a
}

type panicError struct{ v any }

func (p panicError) Error() string { return fmt.Sprintf("panic: %v", p.v) }

func isPanic(err error) bool {
	var p panicError
	return errors.As(err, &p)
}

var (
	basicOnce   sync.Once
	basicAttrs  []chord.Attribute
	basicChords []chord.Chord
)

// implChordMap builds a fresh dictionary the way cmd/io.go newChordBuilder does. The embedded
// definitions are parsed once (plain values); the Builder and the Map are new per call.
func implChordMap(attrFiles, chordFiles []string) (*chord.Map, error) {
	basicOnce.Do(func() {
		basicAttrs = chord.BasicAttributes()
		basicChords = chord.BasicChords()
	})
	b := chord.NewBuilder()
	for _, x := range basicAttrs {
		b.Attribute(x)
	}
	for _, x := range basicChords {
		x.Attributes = append([]string(nil), x.Attributes...)
		b.Chord(x)
	}
	for _, f := range attrFiles {
		attrs, err := util.OpenAndParse(f, chord.ParseAttributes)
		if err != nil {
			return nil, err
		}
		for _, x := range attrs {
			b.Attribute(x)
		}
	}
	for _, f := range chordFiles {
		chords, err := util.OpenAndParse(f, chord.ParseChords)
		if err != nil {
			return nil, err
		}
		for _, x := range chords {
			b.Chord(x)
		}
	}
	return b.Build()
}

// implWriteLib composes the library packages the way cmd/write.go does (in-process).
func implWriteLib(doc string, cfg writeCfg) (out []byte, err error) {
	defer func() {
		if r := recover(); r != nil {
			err = panicError{r}
		}
	}()
	var in []*input.Instance
	if err := yaml.Unmarshal([]byte(doc), &in); err != nil {
		return nil, err
	}
	tracks := cfg.Tracks
	if tracks == 0 {
		tracks = 1
	}
	set, err := midix.NewTrackSetControllerFromTrackNum(tracks)
	if err != nil {
		return nil, err
	}
	// a fresh dictionary per execution: executions must not share mutable state
	cmap, err := implChordMap(cfg.AttrFiles, cfg.ChordFiles)
	if err != nil {
		return nil, err
	}
	instances := make([]op.Instance, len(in))
	for i, x := range in {
		if x == nil {
			return nil, fmt.Errorf("null instance")
		}
		v := op.Instance{Values: x.Values, BPM: x.BPM, Velocity: x.Velocity, Meter: x.Meter, Key: x.Key, Meta: x.Meta}
		if i == 0 {
			f := cfg.Flags
			if f.BPM != nil && *f.BPM != 0 {
				b := op.BPM(*f.BPM)
				v.BPM = &b
			}
			if f.Vel != nil && *f.Vel != "" {
				d := op.NewDynamicSign(*f.Vel)
				if d == op.UnknownDynamicSign {
					return nil, fmt.Errorf("velocity %s", *f.Vel)
				}
				v.Velocity = &d
			}
			if f.Meter != nil {
				m, err := op.NewMeter(uint(f.Meter.Num), uint(f.Meter.Den))
				if err != nil {
					return nil, err
				}
				v.Meter = &m
			}
			if f.Key != nil && *f.Key != "" {
				k, err := op.ParseKey(*f.Key)
				if err != nil {
					return nil, err
				}
				v.Key = &k
			}
		}
		if c := x.Chord; c != nil {
			cd, ok := cmap.GetChord(c.Chord)
			if !ok {
				return nil, fmt.Errorf("chord %s not found", c.Chord)
			}
			y := op.NewChord(c.Degree, cd, c.Base)
			v.Chord = &y
		}
		instances[i] = v
	}
	instrument := midix.DefaultInstrument
	if cfg.Instrument != nil {
		instrument = *cfg.Instrument
	}
	program := midix.DefaultProgram
	if cfg.Program != nil {
		program = uint8(*cfg.Program)
	}
	mw := midix.NewWriter(midix.DefaultTicksPerQuoaterNote, set, instrument, program)
	w := play.NewWriter(cmap, func(k op.Key) play.Key { return play.NewKey(k, cmap) })
	if err := w.Write(mw, instances); err != nil {
		return nil, err
	}
	var buf bytes.Buffer
	if _, err := mw.WriteTo(&buf); err != nil {
		return nil, err
	}
	return buf.Bytes(), nil
}

// implWriteCLI runs the real `crd write`.
func implWriteCLI(doc string, cfg writeCfg) cli.Res {
	return cli.Run(cli.Opt{Stdin: []byte(doc)}, append([]string{"write"}, cfg.args()...)...)
}

// refDict loads the dictionary files of the working tree with the independent loader.
func refDict(repo string, attrFiles, chordFiles []string) (*dict.Dict, error) {
	a := append([]string{filepath.Join(repo, "chord", "attribute.yml")}, attrFiles...)
	c := append([]string{filepath.Join(repo, "chord", "chord.yml")}, chordFiles...)
	return dict.LoadFiles(a, c)
}

var (
	velOnce sync.Once
	velMap  map[string]int
	velErr  string
)

// learnVelocities plays seven one-chord documents (no dynamic, pp..ff) and reads the
// velocity of the note-ons: the property fixes the order, not the numbers.
func learnVelocities() (map[string]int, string) {
	velOnce.Do(func() {
		velMap = map[string]int{}
		for _, d := range append([]string{""}, refplay.Dynamics...) {
			doc := "- chord:\n    degree: \"1\"\n    name: \"\"\n  values:\n    - \"1\"\n"
			if d != "" {
				doc += "  velocity: " + d + "\n"
			}
			b, err := implWriteLib(doc, writeCfg{})
			if err != nil {
				velErr = fmt.Sprintf("dynamic %q: write failed: %v", d, err)
				return
			}
			f, err := smf.Parse(b)
			if err != nil {
				velErr = fmt.Sprintf("dynamic %q: %v", d, err)
				return
			}
			v := -1
			for _, tr := range f.Tracks {
				for _, e := range tr {
					if e.IsNoteOn() {
						if v >= 0 && v != int(e.Data[1]) {
							velErr = fmt.Sprintf("dynamic %q: notes of one chord have different velocities", d)
							return
						}
						v = int(e.Data[1])
					}
				}
			}
			if v < 1 || v > 127 {
				velErr = fmt.Sprintf("dynamic %q: velocity %d not in 1..127", d, v)
				return
			}
			velMap[d] = v
		}
		for i := 1; i < len(refplay.Dynamics); i++ {
			if velMap[refplay.Dynamics[i]] <= velMap[refplay.Dynamics[i-1]] {
				velErr = fmt.Sprintf("%s (%d) is not louder than %s (%d)", refplay.Dynamics[i], velMap[refplay.Dynamics[i]], refplay.Dynamics[i-1], velMap[refplay.Dynamics[i-1]])
			}
		}
	})
	return velMap, velErr
}

// newModel builds the reference model bound to the working tree's dictionary files.
func newModel(e *Env) (*refplay.Model, error) {
	d, err := refDict(e.RepoDir, nil, nil)
	if err != nil {
		return nil, err
	}
	vm, _ := learnVelocities() // a bad table is C07's finding
	return &refplay.Model{Dict: d, T: 960, Vel: vm}, nil
}

func writeTemp(dir, name, content string) string {
	p := filepath.Join(dir, name)
	if err := os.WriteFile(p, []byte(content), 0o644); err != nil {
		panic(err)
	}
	return p
}
