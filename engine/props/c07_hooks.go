//go:build verif

package props

import (
	"encoding/json"
	"fmt"
	"io"
	"sort"
	"strings"

	"github.com/berquerant/crd/op"
	"github.com/berquerant/crd/play"

	"verif/ev"
	"verif/mc"
	"verif/ref/theory"
)

// recWriter records the calls made on a midix.Writer.
type recWriter struct{ calls []string }

func (r *recWriter) Note(value float64, velocity uint8, key ...uint8) error {
	r.calls = append(r.calls, fmt.Sprintf("Note(%v,%d,%v)", value, velocity, key))
	return nil
}
func (r *recWriter) Tempo(bpm int) { r.calls = append(r.calls, fmt.Sprintf("Tempo(%d)", bpm)) }
func (r *recWriter) Meter(num, denom uint8) {
	r.calls = append(r.calls, fmt.Sprintf("Meter(%d,%d)", num, denom))
}
func (r *recWriter) Key(key uint8, isMajor bool, num uint8, isFlat bool) {
	r.calls = append(r.calls, fmt.Sprintf("Key(%d,%v,%d,%v)", key, isMajor, num, isFlat))
}
func (r *recWriter) Text(text string)                     { r.calls = append(r.calls, "Text("+text+")") }
func (r *recWriter) Lyric(text string)                    { r.calls = append(r.calls, "Lyric("+text+")") }
func (r *recWriter) Marker(text string)                   { r.calls = append(r.calls, "Marker("+text+")") }
func (r *recWriter) Close()                               { r.calls = append(r.calls, "Close()") }
func (r *recWriter) Rest(value float64)                   { r.calls = append(r.calls, fmt.Sprintf("Rest(%v)", value)) }
func (r *recWriter) WriteTo(out io.Writer) (int64, error) { return 0, nil }

// argsOp is one instance with a subset of the five settings, values variant 1 or 2.
type argsOp struct {
	Subset  int `json:"subset"` // bit0 bpm, bit1 meter, bit2 velocity, bit3 key, bit4 meta
	Variant int `json:"variant"`
}

var (
	argBPM   = [3]uint{100, 66, 180}
	argMeter = [3][2]uint{{4, 4}, {3, 4}, {6, 8}}
	argVel   = [3]string{"mp", "pp", "ff"}
	argKey   = [3]string{"C", "Ebm", "F#"}
	argMeta  = [3]map[string]string{{}, {"txt": "a", "mrk": "m"}, {"lic": "l"}}
)

func (o argsOp) instance() op.Instance {
	var in op.Instance
	v := o.Variant
	if o.Subset&1 != 0 {
		b := op.BPM(argBPM[v])
		in.BPM = &b
	}
	if o.Subset&2 != 0 {
		m := op.MustNewMeter(argMeter[v][0], argMeter[v][1])
		in.Meter = &m
	}
	if o.Subset&4 != 0 {
		d := op.NewDynamicSign(argVel[v])
		in.Velocity = &d
	}
	if o.Subset&8 != 0 {
		k := op.MustParseKey(argKey[v])
		in.Key = &k
	}
	if o.Subset&16 != 0 {
		m := op.Meta(argMeta[v])
		in.Meta = &m
	}
	return in
}

type argsCase struct {
	Ops []argsOp `json:"ops"`
}

func keyCall(name string) string {
	k, _ := theory.ParseKey(name)
	sig := k.Signature()
	n := sig
	if n < 0 {
		n = -n
	}
	return fmt.Sprintf("Key(%d,%v,%d,%v)", uint8(k.TonicOffset()), !k.Minor, n, sig < 0)
}

// argsRun replays the ops on a fresh midiArgs; the calls of every op are compared with the model.
func argsRun(e *Env, c argsCase, report bool) (string, bool) {
	a := play.NewVerifArgs()
	st := [5]int{} // value class per cell: 0 default, 1, 2
	velOf, _ := learnVelocities()
	fail := func(class, msg string) (string, bool) {
		if report {
			e.R.Fail(ev.Fail{Class: class, Msg: msg, Kind: "args-ops", Case: c})
		}
		return "", false
	}
	for i, o := range c.Ops {
		for b := 0; b < 5; b++ {
			if o.Subset>>uint(b)&1 == 1 {
				st[b] = o.Variant
			}
		}
		var want []string
		if i == 0 || o.Subset&1 != 0 {
			want = append(want, fmt.Sprintf("Tempo(%d)", argBPM[st[0]]))
		}
		if i == 0 || o.Subset&2 != 0 {
			want = append(want, fmt.Sprintf("Meter(%d,%d)", argMeter[st[1]][0], argMeter[st[1]][1]))
		}
		if i == 0 || o.Subset&8 != 0 {
			want = append(want, keyCall(argKey[st[3]]))
		}
		if o.Subset&16 != 0 {
			mm := argMeta[st[4]]
			for _, kv := range [][2]string{{"txt", "Text"}, {"lic", "Lyric"}, {"mrk", "Marker"}} {
				if s := mm[kv[0]]; s != "" {
					want = append(want, kv[1]+"("+s+")")
				}
			}
		}
		rec := &recWriter{}
		a.Update(o.instance())
		a.WriteWhenUpdated(rec)
		// same-tick order is not prescribed: compare as multisets
		sort.Strings(rec.calls)
		sort.Strings(want)
		if strings.Join(rec.calls, " ") != strings.Join(want, " ") {
			return fail("C07/args/emitted", fmt.Sprintf("after ops %v: instance %d emitted %v, the settings history requires %v", c.Ops, i, rec.calls, want))
		}
		if got := a.Key().String(); got != argKey[st[3]] {
			return fail("C07/args/key-in-force", fmt.Sprintf("after ops %v: key in force %s, want %s", c.Ops, got, argKey[st[3]]))
		}
		wantVel := velOf[argVel[st[2]]]
		if st[2] == 0 {
			wantVel = velOf[""]
		}
		if got := int(a.Velocity()); velOf != nil && got != wantVel {
			return fail("C07/args/velocity-in-force", fmt.Sprintf("after ops %v: velocity in force %d, want %d", c.Ops, got, wantVel))
		}
		// a second flush must emit nothing
		rec2 := &recWriter{}
		a.WriteWhenUpdated(rec2)
		if len(rec2.calls) != 0 {
			return fail("C07/args/emitted-twice", fmt.Sprintf("after ops %v: a second flush emitted %v", c.Ops, rec2.calls))
		}
	}
	return fmt.Sprint(st), true
}

func c07ArgsGraph(e *Env) {
	var ops []argsOp
	for s := 0; s < 32; s++ {
		for v := 1; v <= 2; v++ {
			ops = append(ops, argsOp{s, v})
		}
	}
	res := mc.BFS("initial", len(ops), -1, func(path []int, o int) (string, bool) {
		c := argsCase{}
		for _, p := range append(append([]int{}, path...), o) {
			c.Ops = append(c.Ops, ops[p])
		}
		k, ok := argsRun(e, c, false)
		e.R.Eval(1)
		e.R.Transition(1)
		if !ok {
			argsRun(e, c, true)
			return "", false
		}
		e.R.State("args:" + k)
		return k, true
	})
	e.R.AddPart(ev.Part{Name: "midiArgs-graph", Enumerated: "explicit-state on the real midiArgs (VerifArgs hook): state = value class {default,v1,v2} of bpm, meter, velocity, key, meta; 64 operations = instance with any subset of the five settings x 2 value variants; BFS to fixpoint; on every edge the calls emitted into a recording midix.Writer, the key and velocity in force are compared with the model and a second flush must emit nothing", Executions: int64(res.Transitions), States: int64(res.States), Transitions: int64(res.Transitions), Exhaustive: res.Fixpoint, Note: "state abstraction: after a flush all needs-emitting flags are clear, so the value classes determine the future"})
}

func c07ReplayArgs(e *Env, raw json.RawMessage) { argsRun(e, decode[argsCase](raw), true) }
