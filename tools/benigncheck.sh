#!/bin/bash
# tools/benigncheck.sh <patch> <id> [checks...]: applies a behaviour-preserving change, confirms that the
# repository's tests pass, runs the quick checks (all by default) and reports any that do not exit 0. Restores /repo.
set -u
# a change under test may remove or replace device nodes it is handed (as root): put them back
guard_dev() { [ -c /dev/full ] || { rm -f /dev/full; mknod -m 666 /dev/full c 1 7 && echo "note: /dev/full had been replaced and was restored" >&2; }; [ -c /dev/null ] || { rm -f /dev/null; mknod -m 666 /dev/null c 1 3; }; }
guard_dev
PATCH=$1; ID=$2; shift 2
CHECKS=${*:-C01 C02 C03 C04 C05 C06 C07 C08 C09 C10 C11 C12 C13 C14 C15 C16 C17}
export GOFLAGS=-mod=mod GOPROXY=off
R=${SEED_REPO:-/repo}; CV=${SEED_VERIF:-/verif}   # a worktree of /repo and a copy of /verif bound to it leave both alone
cd $R || exit 2
[ -z "$(git status --porcelain)" ] || { echo "$R not clean"; exit 2; }
S=$(mktemp -d /var/tmp/benign.XXXXXX); trap 'git -C $R checkout -- . ; git -C $R clean -fdq; rm -rf "$S"' EXIT
if git apply --check "$PATCH" 2>/dev/null; then git apply "$PATCH"; elif patch -p1 --dry-run -F3 -s < "$PATCH" >/dev/null 2>&1; then patch -p1 -F3 -s -i "$PATCH"; find . -name '*.orig' -delete; else echo "BENIGN $ID patch does not apply"; exit 2; fi
TESTS=pass; go test -vet=off -count=1 ./... >$S/test.log 2>&1 || TESTS=fail
TAGB=ok; go build -tags verif ./... >/dev/null 2>&1 || TAGB=hooks-do-not-compile
RES=""
for c in $CHECKS; do
  (cd $CV && VERIF_REPO=$R timeout 1500 ./check $c quick > $S/$c.log 2>&1); rc=$?
  if [ $rc -ne 0 ]; then
    cls=$(grep -E "^FAIL class=|harness" $S/$c.log | sed 's/ cases=.*//;s/FAIL class=//' | head -3 | tr '\n' ' ')
    RES="$RES $c=$rc[$cls]"
    cp $S/$c.log /tmp/benign-$ID-$c.log
  fi
done
echo "BENIGN $ID tests=$TESTS verif-tag=$TAGB alarms:${RES:- none}"
guard_dev
