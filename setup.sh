#!/bin/bash
# Build everything once so that later checks hit a warm build cache. Offline.
set -eu
VERIF=$(cd "$(dirname "$0")" && pwd)
export GOFLAGS=-mod=mod GOPROXY=off
unset GOSUMDB GOTOOLCHAIN 2>/dev/null || true
SCR=$(mktemp -d "${TMPDIR:-/var/tmp}/verif-setup.XXXXXX")
trap 'rm -rf "$SCR"' EXIT
(cd /repo && go build -o "$SCR/crd" ./cmd)
(cd "$VERIF/engine" && go build -tags verif -o "$SCR/vcheck" ./cmd/vcheck && go vet -tags verif ./... >/dev/null 2>&1 || true)
# self-tests of the explorer and of the reference models (textbook facts written by hand)
(cd "$VERIF/engine" && go test ./mc ./ref/... >"$SCR/selftest.log" 2>&1) || { cat "$SCR/selftest.log"; echo "self-tests of the engine failed" >&2; exit 1; }
mkdir -p "$VERIF/evidence" "$VERIF/replay"
echo setup ok
