package props

import (
	"bytes"
	"encoding/json"
	"fmt"
	"os"
	"path/filepath"
	"strings"
	"verif/cli"

	"verif/ev"
	"verif/mc"
	refplay "verif/ref/play"
	"verif/ref/smf"
	"verif/ref/theory"
	"verif/ref/timing"
)

// C08 — every file written is a well-formed Standard MIDI File.

func init() {
	register(&Prop{ID: "C08", Run: runC08, Replay: map[string]func(*Env, json.RawMessage){
		"play": func(e *Env, raw json.RawMessage) {
			c := decode[playCase](raw)
			c08Eval(e, &c, true)
		},
	}})
}

func c08Cfg(c *playCase) string {
	var s []string
	if c.Cfg.Tracks > 1 {
		s = append(s, "multi-track")
	}
	if c.Cfg.Program != nil && *c.Cfg.Program > 127 {
		s = append(s, "program>127")
	}
	if c.Cfg.Instrument != nil {
		s = append(s, "instrument")
	}
	if len(s) == 0 {
		return "default"
	}
	return strings.Join(s, "+")
}

// c08Eval: whatever is output on success must be a strictly well-formed SMF.
func c08Eval(e *Env, c *playCase, report bool) bool {
	doc := refplay.YAML(c.Insts)
	res := runWrite(c.Path, doc, c.Cfg)
	e.R.Eval(1)
	fail := func(class, s string) bool {
		if report {
			c.fill()
			e.R.Fail(ev.Fail{Class: class, Msg: s, Kind: "play", Case: c})
		}
		return false
	}
	if res.Err != "" {
		// refusing is allowed; crashing is C09's business but an SMF property cannot hold on a crash either
		e.R.Outcome("refused")
		if res.Crashed {
			return fail("C08/crash/"+c.Path, fmt.Sprintf("crash instead of a file or a refusal (%v): %s", c.Cfg.args(), res.Err))
		}
		return true
	}
	f, err := smf.Parse(res.Bytes)
	if err != nil {
		return fail("C08/malformed/"+c.Path+"/"+c08Cfg(c), fmt.Sprintf("write %v: output is not a well-formed SMF: %v", c.Cfg.args(), err))
	}
	n := c.Cfg.Tracks
	if n == 0 {
		n = 1
	}
	wantFormat := 1
	if n == 1 {
		wantFormat = 0
	}
	if f.Format != wantFormat {
		return fail("C08/format/"+c.Path, fmt.Sprintf("--track %d: header declares format %d, want %d", n, f.Format, wantFormat))
	}
	if f.NTracks != n || len(f.Tracks) != n {
		return fail("C08/ntrks/"+c.Path, fmt.Sprintf("--track %d: header declares %d tracks, file has %d chunks", n, f.NTracks, len(f.Tracks)))
	}
	if err := smf.CheckNotes(f); err != nil {
		return fail("C08/notes/"+c.Path, fmt.Sprintf("write %v on %s: %v", c.Cfg.args(), c02Durations(c), err))
	}
	for ti, tr := range f.Tracks {
		if ti == 0 {
			continue
		}
		for _, ev2 := range tr {
			if ev2.IsMeta(0x51) || ev2.IsMeta(0x58) || ev2.IsMeta(0x59) {
				return fail("C08/control-outside-track0/"+c.Path, fmt.Sprintf("--track %d: %s in track %d", n, ev2.Canon(), ti))
			}
		}
	}
	e.R.Outcome(fmt.Sprintf("format%d/%d", f.Format, f.NTracks))
	return true
}

func runC08(e *Env) {
	e.R.Rule = "every file produced for the instance-shape histories of C06 x track counts, every --program 0..255, instrument names around the VLQ length boundary, degrees leaving the MIDI range and a bass doubling a chord tone is parsed by a strict SMF reader that shares no code with the writer; distinct = (document, configuration); non-trivial = N >= 2 or a non-default flag or an out-of-range pitch"
	e.R.Assume("reference: ref/smf written from the SMF 1.0 text (header length 6, exact chunk accounting, VLQ <= 4 bytes, running status, data bytes < 0x80, meta lengths, exactly one end-of-track and it is last, nothing after the last chunk)")
	e.R.Exclude("track counts >= 65536 (16-bit header field)")
	shapes := c06Shapes()
	// extra shapes: out-of-range degrees, bass doubling a chord tone, same chord twice
	extra := []refplay.Inst{
		{Chord: &refplay.Chord{Degree: iv("1"), Symbol: "", Bass: ivp("8")}, Values: one()},
		{Chord: &refplay.Chord{Degree: iv("1"), Symbol: "9", Bass: ivp("9")}, Values: one()},
		{Chord: &refplay.Chord{Degree: iv("40"), Symbol: "9"}, Values: one()},
		{Chord: &refplay.Chord{Degree: iv("64"), Symbol: ""}, Values: one()},
		{Chord: &refplay.Chord{Degree: theory.Interval{Num: 1, Q: theory.DoublyDiminished}, Symbol: "", Bass: &theory.Interval{Num: 1, Q: theory.DoublyDiminished}}, Values: one(), Key: sp("Cb")},
		{Chord: &refplay.Chord{Degree: iv("1"), Symbol: ""}, Values: one(), Meta: map[string]string{"txt": strings.Repeat("é", 100)}},
		{Chord: &refplay.Chord{Degree: iv("1"), Symbol: ""}, Values: one(), BPM: up(1000)},
		{Values: one(), BPM: up(60000000), Meter: &timing.Frac{Num: 255, Den: 128}},
	}
	all := append(append([]refplay.Inst{}, shapes...), extra...)
	var hist [][]int
	var gen func(p []int, max int)
	gen = func(p []int, max int) {
		if len(p) > 0 {
			hist = append(hist, append([]int{}, p...))
		}
		if len(p) == max {
			return
		}
		for o := range all {
			gen(append(p, o), max)
		}
	}
	maxLen := 3
	gen(nil, maxLen)
	var ns []int
	for n := 1; n <= 64; n++ {
		ns = append(ns, n)
	}
	ns = append(ns, 127, 128, 255, 256, 1000)
	short := 8
	if e.Thorough {
		short = 24
	}
	type job struct {
		h []int
		n int
	}
	var jobs []job
	for _, h := range hist {
		for _, n := range ns {
			if len(h) == 3 && n > short {
				continue
			}
			jobs = append(jobs, job{h, n})
		}
	}
	mc.ParFor(len(jobs), func(i int) {
		j := jobs[i]
		c := playCase{Path: "lib", Cfg: writeCfg{Tracks: j.n}}
		for _, o := range j.h {
			c.Insts = append(c.Insts, all[o])
		}
		if !c08Eval(e, &c, false) {
			c08Eval(e, &c, true)
		}
		e.R.Trace(1)
		e.R.Transition(int64(len(j.h)))
		e.R.NonTrivial(fmt.Sprint(j.h, j.n))
		e.R.State(fmt.Sprintf("N=%d", j.n))
	})
	e.R.AddPart(ev.Part{Name: "histories-x-tracks", Enumerated: fmt.Sprintf("all histories of length <= %d over 15 instance shapes (C06's 7 + bass doubling a tone, out-of-range degrees 40 and 64, lowest pitch, 200-byte text, tempo 1000 and 60 000 000 bpm with meter 255/128) x N in %v", maxLen, ns), Executions: int64(len(jobs)), Exhaustive: true})

	// flag product through the real binary
	doc := []refplay.Inst{shapes[0], shapes[4], shapes[1]}
	var fj []playCase
	for p := 0; p <= 255; p++ {
		for _, n := range []int{1, 2} {
			fj = append(fj, playCase{Path: "cli", Insts: doc, Cfg: writeCfg{Tracks: n, Program: ip(p)}})
		}
	}
	names := []string{"", "Piano", "é", strings.Repeat("a", 127), strings.Repeat("b", 128), strings.Repeat("c", 300), strings.Repeat("é", 64), "a\nb"}
	for _, nm := range names {
		for _, n := range []int{1, 3} {
			fj = append(fj, playCase{Path: "cli", Insts: doc, Cfg: writeCfg{Tracks: n, Instrument: sp(nm)}})
		}
	}
	for _, n := range ns {
		fj = append(fj, playCase{Path: "cli", Insts: doc, Cfg: writeCfg{Tracks: n}})
	}
	for _, h := range hist {
		if len(h) <= 2 {
			for _, n := range []int{1, 2, 3, 17} {
				c := playCase{Path: "cli", Cfg: writeCfg{Tracks: n}}
				for _, o := range h {
					c.Insts = append(c.Insts, all[o])
				}
				fj = append(fj, c)
			}
		}
	}
	mc.ParFor(len(fj), func(i int) {
		c := fj[i]
		c08Eval(e, &c, true)
		lc := c
		lc.Path = "lib"
		c08Eval(e, &lc, true)
		e.R.Trace(1)
		e.R.NonTrivial("flags" + fmt.Sprint(i))
	})
	e.R.AddPart(ev.Part{Name: "flag-product", Enumerated: "real binary and in-process: --program 0..255 x N in {1,2}; 8 instrument names (empty, 127, 128, 300 bytes, non-ASCII, newline) x N in {1,3}; all track counts; all histories of length <= 2 over the 15 shapes x N in {1,2,3,17}", Executions: int64(2 * len(fj)), Exhaustive: true})
	// durations at and beyond the limit of a 4-byte delta (2^28 ticks = 279 620.27 beats)
	var longs []playCase
	for _, beats := range []uint64{279620, 279621, 300000, 5000000} {
		v := []timing.Frac{{Num: beats, Den: 1}}
		longs = append(longs,
			playCase{Path: "lib", Insts: []refplay.Inst{shapes[0], {Values: v}, shapes[0]}},
			playCase{Path: "lib", Insts: []refplay.Inst{{Chord: shapes[0].Chord, Values: v}}},
			playCase{Path: "lib", Insts: []refplay.Inst{shapes[0], {Values: v}}, Cfg: writeCfg{Tracks: 2}},
		)
	}
	for i := range longs {
		c := longs[i]
		res := runWrite(c.Path, refplay.YAML(c.Insts), c.Cfg)
		e.R.Eval(1)
		if res.Err != "" {
			continue // refusing an over-long duration is fine
		}
		if _, err := smf.Parse(res.Bytes); err != nil {
			c.fill()
			e.R.Fail(ev.Fail{Class: "C08/malformed/delta-of-2^28-ticks-or-more", Msg: fmt.Sprintf("%s: accepted, but the file is malformed: %v", c02Durations(&c), err), Kind: "play", Case: &c})
		}
	}
	e.R.AddPart(ev.Part{Name: "over-long-durations", Enumerated: "a rest or a chord of 279 620, 279 621, 300 000 and 5 000 000 beats (the delta between two events reaches 2^28 ticks at 279 620.27 beats): refused or well-formed", Executions: int64(len(longs)), Exhaustive: true})
	if mm, err := newModel(e); err == nil {
		wideFile, wideMax := wideChords(e, mm)
		var wjobs []playCase
		for _, n := range []int{1, 16, 17, 32, 33, wideMax} {
			for _, N := range []int{1, 2, 3, 16, 17, 32, 33, 40, 256} {
				for _, path := range []string{"lib", "cli"} {
					c := playCase{Path: path, Cfg: writeCfg{Tracks: N, ChordFiles: []string{wideFile}}}
					c.Insts = []refplay.Inst{
						{Chord: &refplay.Chord{Degree: iv("1"), Symbol: fmt.Sprintf("w%d", n)}, Values: one()},
						{Values: one()},
						{Chord: &refplay.Chord{Degree: iv("2"), Symbol: fmt.Sprintf("Wide%d", (n+1)/2), Bass: ivp("5")}, Values: []timing.Frac{{Num: 1, Den: 2}}},
					}
					wjobs = append(wjobs, c)
				}
			}
		}
		mc.ParFor(len(wjobs), func(i int) {
			c := wjobs[i]
			c08Eval(e, &c, true)
			e.R.Trace(1)
		})
		e.R.AddPart(ev.Part{Name: "wide-chords-x-tracks", Enumerated: fmt.Sprintf("user chords of 1, 16, 17, 32, 33 and %d tones x N in {1,2,3,16,17,32,33,40,256}, in-process and real binary", wideMax), Executions: int64(len(wjobs)), Exhaustive: true})
	}
	// track counts around what the 16-bit field of the header can state: refused, or a file that declares what it holds
	var big []playCase
	for _, n := range []int{32767, 32768, 32769, 65534, 65535, 65536, 65537, 70000, 131071} {
		for _, path := range []string{"lib", "cli"} {
			big = append(big, playCase{Path: path, Cfg: writeCfg{Tracks: n}, Insts: []refplay.Inst{shapes[0], {Values: one()}, shapes[1]}})
		}
	}
	mc.ParFor(len(big), func(i int) {
		c := big[i]
		c08Eval(e, &c, true)
		e.R.Trace(1)
	})
	e.R.AddPart(ev.Part{Name: "track-counts-at-the-header-limit", Enumerated: "--track 32767, 32768, 32769, 65534, 65535, 65536, 65537, 70000, 131071 (the header field has 16 bits), in-process and real binary: refused, or a strictly well-formed file with exactly that many chunks", Executions: int64(len(big)), Exhaustive: true})
	// the file written with -o, onto nothing and onto an existing longer file: the chunk lengths add up to the file
	var ocases []playCase
	for _, n := range []int{1, 3} {
		ocases = append(ocases, playCase{Path: "cli", Cfg: writeCfg{Tracks: n}, Insts: []refplay.Inst{shapes[0], {Values: one()}, shapes[1]}})
	}
	mc.ParFor(2*len(ocases), func(i int) {
		c := ocases[i/2]
		existing := i%2 == 1
		dir, err := os.MkdirTemp(e.Scratch, "c08o")
		if err != nil {
			panic(err)
		}
		defer os.RemoveAll(dir)
		out := filepath.Join(dir, "out.mid")
		if existing {
			os.WriteFile(out, bytes.Repeat([]byte("MTrk stale bytes of an earlier, longer file "), 400), 0o644)
		}
		r := cli.Run(cli.Opt{Stdin: []byte(refplay.YAML(c.Insts))}, append(append([]string{"write"}, c.Cfg.args()...), "-o", out)...)
		e.R.Eval(1)
		b, rerr := os.ReadFile(out)
		if !r.OK() || rerr != nil {
			c.fill()
			e.R.Fail(ev.Fail{Class: "C08/output-file", Msg: fmt.Sprintf("crd write -o FILE (existing=%v) fails: %s %v", existing, firstLine(r.Stderr), rerr), Kind: "play", Case: &c})
			return
		}
		if _, err := smf.Parse(b); err != nil {
			c.fill()
			e.R.Fail(ev.Fail{Class: "C08/malformed/output-file", Msg: fmt.Sprintf("the file written with -o (onto an existing longer file: %v) is malformed: %v", existing, err), Kind: "play", Case: &c})
		}
	})
	e.R.AddPart(ev.Part{Name: "output-file", Enumerated: "crd write -o FILE for 1 and 3 tracks, FILE absent and FILE an existing longer file: the bytes of FILE parse strictly (nothing after the last chunk)", Executions: int64(2 * len(ocases)), Exhaustive: true})
	runYAMLForms(e, "C08")
	runLong(e, 16, func(c *playCase) {
		for _, n := range []int{1, 3} {
			cc := *c
			cc.Cfg.Tracks = n
			c08Eval(e, &cc, true)
		}
	})
	e.R.Sample(map[string]any{"document": "[triad][rest+text][six-note chord]", "flags": "--track 2 --program 200", "oracle": "either refused, or a format-1 file with 2 chunks, data bytes < 128, one end-of-track per track"})
}
