package props

import (
	"bytes"
	"encoding/json"
	"fmt"
	"strings"
	"sync/atomic"

	"verif/cli"
	"verif/ev"
	"verif/mc"
	"verif/ref/chordlang"
)

// C11 — spelling variants of the same chord text give byte-identical results.

type c11Case struct {
	Mode    string          `json:"mode"` // syllable | degree
	Key     string          `json:"key,omitempty"`
	Base    []chordlang.Tok `json:"base_tokens"`
	Choices []int           `json:"choices"`
	Path    string          `json:"path"`
	Canon   string          `json:"canonical_text,omitempty"`
	Variant string          `json:"variant_text,omitempty"`
}

func init() {
	register(&Prop{ID: "C11", Run: runC11, Replay: map[string]func(*Env, json.RawMessage){
		"key-spelling": func(e *Env, raw json.RawMessage) { c11KeyEval(e, decode[c11KeyCase](raw)) },
		"look-alike":   func(e *Env, raw json.RawMessage) { c11LookEval(e, decode[c11Look](raw)) },
		"variant": func(e *Env, raw json.RawMessage) {
			c := decode[c11Case](raw)
			c11Eval(e, &c, mc.NewReplay(c.Choices), true)
		},
	}})
}

func isNumeric(s string) bool {
	for _, c := range s {
		if c < '0' || c > '9' {
			return false
		}
	}
	return s != ""
}

// c11Build writes the base tokens with the spelling decided by the chooser. With a chooser
// that takes defaults everywhere the result is the canonical spelling.
func c11Build(base []chordlang.Tok, ch *mc.Chooser) string {
	var b strings.Builder
	inBraces, inValues := false, false
	for i, t := range base {
		if i > 0 {
			prev := base[i-1]
			switch {
			case inBraces:
				// only leading whitespace after { = , is trivia inside braces
				if prev.Kind == "LCBRA" || prev.Kind == "EQUAL" || prev.Kind == "COMMA" {
					b.WriteString([]string{"", " ", "\n", " \t "}[ch.Choose(4)])
				}
			default:
				// canonical gap: nothing if the two tokens stay separate, a space otherwise
				canon := ""
				if rt, _, _ := chordlang.Tokenize(prev.Val + t.Val); len(rt) != 2 || rt[0].Val != prev.Val || rt[1].Val != t.Val || prev.Kind == "UNDERSCORE" && false {
					canon = " "
				}
				opts := []string{canon, " ", "\t", "\n", " ;x y\n", "  ", "\n\n", ";\n", ";c\n  ", ";a\n\t;b\n", "\t;c\n\n", "\r\n", "\r", ";x\ry z\n", " ;\r\n"}
				b.WriteString(opts[ch.Choose(len(opts))])
			}
		}
		txt := t.Val
		switch t.Kind {
		case "LBRA":
			inValues = true
		case "RBRA":
			inValues = false
		case "LCBRA":
			inBraces = true
		case "RCBRA":
			inBraces = false
		case "SYMBOL":
			if !isNumeric(t.Val) && (i == 0 || base[i-1].Kind != "UNDERSCORE") {
				if ch.Choose(2) == 1 {
					txt = "_" + txt
				}
			}
		case "NUMBER":
			if inValues {
				txt = []string{"", "0", "00", "0000000000000000000", "000000000000000000000000000000"}[ch.Choose(5)] + txt
			}
		case "SHARP":
			txt = []string{"#", "♯"}[ch.Choose(2)]
		case "FLAT":
			txt = []string{"b", "♭"}[ch.Choose(2)]
		}
		b.WriteString(txt)
	}
	return b.String()
}

// sameTokens: the variant must read back (documented tokenisation) as the base tokens,
// modulo inserted `_`, leading zeros and the accidental sign used.
func sameTokens(base []chordlang.Tok, text string) bool {
	rt, _, le := chordlang.Tokenize(text)
	if le {
		return false
	}
	norm := func(ts []chordlang.Tok) []chordlang.Tok {
		var r []chordlang.Tok
		for _, t := range ts {
			switch t.Kind {
			case "UNDERSCORE":
				continue
			case "NUMBER":
				v := strings.TrimLeft(t.Val, "0")
				if v == "" {
					v = "0"
				}
				t.Val = v
			case "SHARP", "FLAT":
				t.Val = ""
			}
			r = append(r, t)
		}
		return r
	}
	a, b := norm(base), norm(rt)
	if len(a) != len(b) {
		return false
	}
	for i := range a {
		if a[i] != b[i] {
			return false
		}
	}
	return true
}

var c11NotPreserving int64

func c11Eval(e *Env, c *c11Case, ch *mc.Chooser, report bool) bool {
	canon := c11Build(c.Base, mc.NewReplay(nil))
	variant := c11Build(c.Base, ch)
	c.Choices = ch.Choices()
	c.Canon, c.Variant = canon, variant
	if variant == canon && len(c.Choices) > 0 && ch.Deviations() > 0 {
		return true
	}
	if !sameTokens(c.Base, variant) {
		atomic.AddInt64(&c11NotPreserving, 1)
		return true
	}
	e.R.Eval(1)
	fail := func(class, msg string) bool {
		if report {
			e.R.Fail(ev.Fail{Class: class, Msg: fmt.Sprintf("text conv %s %s: canonical %q vs variant %q: %s", c.Mode, c.Key, canon, variant, msg), Kind: "variant", Case: c})
		}
		return false
	}
	a := runConv(c.Path, canon, c.Mode, c.Key)
	b := runConv(c.Path, variant, c.Mode, c.Key)
	if b.Hang || b.Crashed || a.Hang || a.Crashed {
		return fail("C11/crash-or-hang", a.Err+" / "+b.Err)
	}
	kind := c11Kind(canon, variant)
	if (a.Err == "") != (b.Err == "") {
		return fail("C11/verdict-differs/"+kind, fmt.Sprintf("one spelling is accepted, the other refused: canonical error %q, variant error %q", a.Err, b.Err))
	}
	if a.Err == "" && !bytes.Equal(a.Out, b.Out) {
		return fail("C11/output-differs/"+kind, fmt.Sprintf("outputs differ:\n--- canonical ---\n%s--- variant ---\n%s", a.Out, b.Out))
	}
	if a.Err == "" {
		e.R.Outcome(string(a.Out))
	}
	return true
}

// c11Kind names the kind of spelling difference (for the class key).
func c11Kind(canon, variant string) string {
	switch {
	case strings.ContainsAny(variant, "♯♭"):
		return "unicode-accidental"
	case strings.Count(variant, "_") != strings.Count(canon, "_"):
		return "underscore"
	case strings.Contains(variant, ";"):
		return "comment"
	case strings.Count(variant, "0") != strings.Count(canon, "0"):
		return "leading-zero"
	}
	return "whitespace"
}

// c11Bases turns accepted token-kind sequences into concrete sentences in one notation.
func c11Bases(p *chordlang.SLR, terms []string, maxTok int, syllable bool) [][]chordlang.Tok {
	var out [][]chordlang.Tok
	names := []string{"C", "E", "G", "A", "D", "F", "B"}
	degs := []string{"1", "3", "5", "6", "2", "4", "7"}
	enumViable(p, terms, maxTok, func(kinds []string, acc bool) {
		if !acc {
			return
		}
		var toks []chordlang.Tok
		nHead, nNum, nMeta := 0, 0, 0
		inValues := false
		hasChord := false
		for i, k := range kinds {
			t := chordlang.Tok{Kind: k}
			switch k {
			case "SYLLABLE", "NUMBER":
				if inValues {
					if k == "SYLLABLE" {
						return
					}
					// values that read differently in another base or as a float: 010 = 8 in octal, 08 / 09 are no octal numbers
					t.Val = []string{"1", "10", "8", "4", "9", "16", "2"}[nNum%7]
					nNum++
				} else {
					// a degree head: written in the chosen notation; keep one sentence per head pattern
					if (k == "SYLLABLE") != syllable {
						return
					}
					if syllable {
						t.Val = names[nHead%7]
					} else {
						t.Val = degs[nHead%7]
					}
					nHead++
					hasChord = true
				}
			case "SYMBOL":
				if i > 0 && kinds[i-1] == "UNDERSCORE" {
					t.Val = "7"
				} else {
					t.Val = []string{"m7", "dim", "sus4"}[i%3]
				}
			case "UNDERSCORE":
				t.Val = "_"
			case "METADATA":
				t.Val = []string{"txt", "a b", "lic", "x;y"}[nMeta%4]
				nMeta++
			case "LBRA":
				inValues = true
				t.Val = "["
			case "RBRA":
				inValues = false
				t.Val = "]"
			default:
				ts, ok := tokText[k]
				if !ok {
					return
				}
				t.Val = ts[0]
			}
			toks = append(toks, t)
		}
		if !hasChord {
			return
		}
		out = append(out, toks)
	})
	return out
}

type c11Look struct {
	Char  string `json:"character"`
	ASCII string `json:"ascii"`
	Mode  string `json:"mode"`
}

func c11LookEval(e *Env, l c11Look) {
	tpl := map[string]string{"syllable": "E%s[1] C/F%s[1]", "degree": "3%s[1] 1/5%s[1]"}[l.Mode]
	uni := fmt.Sprintf(tpl, l.Char, l.Char)
	asc := fmt.Sprintf(tpl, l.ASCII, l.ASCII)
	e.R.Eval(1)
	// is the character read as an accidental at all? (otherwise it is a symbol character and none of C11's business)
	tree := implParse(uni)
	if !(tree.Accepted && len(tree.Tree) == 2 && tree.Tree[0].Acc == l.Char && !tree.Tree[0].HasSym) {
		return
	}
	key := "C"
	if l.Mode == "degree" {
		key = ""
	}
	a := runConv("cli", asc, l.Mode, key)
	u := runConv("cli", uni, l.Mode, key)
	if u.Err == "" && (a.Err != "" || !bytes.Equal(a.Out, u.Out)) {
		e.R.Fail(ev.Fail{Class: "C11/output-differs/accepted-accidental-character", Msg: fmt.Sprintf("text conv %s: the lexer reads %q as an accidental and %q is accepted, but it is not converted like %q:\n%s", l.Mode, l.Char, uni, asc, u.Out), Kind: "look-alike", Case: l})
	}
}

// c11KeySpelling: a key written with a Unicode accidental, wherever a key can be written, is
// either refused or means exactly what the ASCII spelling means ("an accidental that is accepted is honoured").
type c11KeyCase struct {
	Door  string `json:"door"`
	ASCII string `json:"ascii_key"`
	Uni   string `json:"unicode_key"`
}

func c11KeyDoor(door, key string) cli.Res {
	doc := "- chord:\n    degree: \"1\"\n    name: \"\"\n  values:\n    - \"1\"\n"
	switch door {
	case "syllable-metadata":
		return cli.In("C[1] G[1]{key="+key+"} G[1]", "text", "conv", "syllable")
	case "degree-metadata":
		return cli.In("1[1] 5[1]{key="+key+"} 5[1]", "text", "conv", "degree")
	case "syllable-flag":
		return cli.In("G[1] A[1]", "text", "conv", "syllable", "--key", key)
	case "write-yaml":
		return cli.In(doc+"  key: \""+key+"\"\n", "write", "event")
	case "write-flag":
		return cli.In(doc, "write", "event", "--key", key)
	case "info-key-describe":
		return cli.In("", "info", "key", "describe", "--key", key)
	case "info-key-conv":
		return cli.In("", "info", "key", "conv", "--key", key, "-c", "d")
	case "chord-describe-target":
		// the key's tonic as the root of a described chord
		return cli.In("", "info", "chord", "describe", "-t", strings.TrimSuffix(key, "m")+"m7")
	case "attr-describe-root":
		return cli.In("", "info", "attr", "describe", "-t", "Major3", "-r", strings.TrimSuffix(key, "m"))
	}
	panic(door)
}

func c11KeyEval(e *Env, c c11KeyCase) {
	e.R.Eval(1)
	a := c11KeyDoor(c.Door, c.ASCII)
	u := c11KeyDoor(c.Door, c.Uni)
	if u.TimedOut || u.Crashed() {
		e.R.Fail(ev.Fail{Class: "C11/crash-or-hang", Msg: fmt.Sprintf("key %s through %s: %s", c.Uni, c.Door, firstLine(u.Stderr)), Kind: "key-spelling", Case: c})
		return
	}
	if !u.OK() {
		e.R.Outcome("unicode key refused")
		return // refusing the Unicode spelling of a key is allowed
	}
	// metadata is echoed as written: read the Unicode spelling in the output as the ASCII one before comparing
	if !a.OK() || !bytes.Equal(a.Stdout, bytes.ReplaceAll(u.Stdout, []byte(c.Uni), []byte(c.ASCII))) {
		e.R.Fail(ev.Fail{Class: "C11/output-differs/unicode-accidental-in-key", Msg: fmt.Sprintf("key %s through %s is accepted but does not mean %s: ASCII spelling ok=%v\n--- %s ---\n%s--- %s ---\n%s", c.Uni, c.Door, c.ASCII, a.OK(), c.ASCII, trunc(string(a.Stdout), 400), c.Uni, trunc(string(u.Stdout), 400)), Kind: "key-spelling", Case: c})
	}
}

func runC11(e *Env) {
	e.R.Rule = "base sentences = every accepted token sequence of chords.y up to the stated number of tokens with at least one chord, written in note-name and in degree notation; variant choice points: every inter-token gap outside braces (nothing/space, space, tab, newline, comment, two spaces, blank line, empty comment, comment followed by indentation, two comments in a row, comment followed by a blank line, CR LF), leading whitespace after { = , inside braces, `_` before each non-numeric symbol, each duration as n / 0n / 00n, each accidental as # b or as the Unicode sign; all variants within the deviation bound; text conv must print the same bytes (same verdict) as for the canonical spelling. distinct = (sentence, choice vector); non-trivial = the variant differs from the canonical text and reads back as the same tokens"
	e.R.Assume("metamorphic oracle; the documented tokeniser (ref/chordlang) decides which variants are spellings of the same tokens; the meaning of the canonical spelling itself is C03's/C05's business")
	e.R.Exclude("whitespace before = , } inside braces (by the documented tokenisation it belongs to the key/value), comments inside braces (not recognised there), leading zeros on degree numbers (the statement names durations only)")
	g, p, err := loadGrammar(e.RepoDir)
	if err != nil {
		panic(err)
	}
	maxTok, bound := 9, 2
	if e.Thorough {
		maxTok, bound = 10, 3
	}
	type base struct {
		toks []chordlang.Tok
		mode string
		key  string
	}
	var bases []base
	for _, t := range c11Bases(p, g.Terms, maxTok, true) {
		bases = append(bases, base{t, "syllable", "C"})
	}
	for _, t := range c11Bases(p, g.Terms, maxTok, false) {
		bases = append(bases, base{t, "degree", ""})
	}
	// a few longer hand-picked sentences with two chords, key change and rests
	for _, s := range []string{"C#m7/E[1,1/2]{key=A,txt=a b} R[2] Bb_7[4]{vel=ff}", "Ebdim/Gb[1/3] F#[2]{bpm=120}"} {
		rt, _, _ := chordlang.Tokenize(s)
		bases = append(bases, base{rt, "syllable", "E"})
	}
	for _, s := range []string{"3bm7/5[1,1/2]{key=A,txt=a b} R[2] 7b_7[4]{vel=ff}", "4#dim/6b[1/3] 1[2]{mtr=3/4}"} {
		rt, _, _ := chordlang.Tokenize(s)
		bases = append(bases, base{rt, "degree", ""})
	}
	var execs int64
	for bi := range bases {
		b := bases[bi]
		bb := bound
		if len(b.toks) > 14 {
			bb = 1
		}
		if e.Thorough && len(b.toks) > 8 {
			bb = 2
		}
		if e.Thorough && len(b.toks) <= 4 {
			bb = 99 // full product for the shortest sentences
		}
		st := mc.Explore(bb, 0, func(ch *mc.Chooser) {
			c := c11Case{Mode: b.mode, Key: b.key, Base: b.toks, Path: "lib"}
			if !c11Eval(e, &c, ch, false) {
				c11Eval(e, &c, mc.NewReplay(ch.Choices()), true)
			}
			if ch.Deviations() > 0 {
				e.R.NonTrivialN(1) // choice vectors of one Explore call are distinct by construction
				e.R.Trace(1)
			}
			e.R.Transition(1)
			if ch.Deviations() == 1 && (e.Thorough || bi%2 == 0) {
				cc := c11Case{Mode: b.mode, Key: b.key, Base: b.toks, Path: "cli"}
				c11Eval(e, &cc, mc.NewReplay(ch.Choices()), true)
			}
		})
		execs += st.Executions
		e.R.State(fmt.Sprint("sentence:", bi))
	}
	e.R.AddPart(ev.Part{Name: "spelling-variants", Enumerated: fmt.Sprintf("%d base sentences (accepted token sequences <= %d tokens in both notations + 4 longer ones); all variants with <= %d deviations (in thorough 3 for sentences <= 8 tokens, 2 beyond, full product for sentences of 4 tokens); real binary for the 1-deviation variants of every 2nd sentence (quick) / all (thorough)", len(bases), maxTok, bound), Executions: execs, States: int64(len(bases)), Transitions: execs, Exhaustive: true, Note: fmt.Sprintf("%d generated variants do not read back as the same tokens and were skipped", atomic.LoadInt64(&c11NotPreserving))})
	var kc []c11KeyCase
	for _, k := range []string{"Eb", "Bb", "F#", "C#", "F#m", "Ebm", "Bbm", "C#m", "Cb", "G#m"} {
		u := strings.NewReplacer("#", "♯", "b", "♭").Replace(k[:len(k)-strings.Count(k, "m")]) + strings.Repeat("m", strings.Count(k, "m"))
		for _, door := range []string{"syllable-metadata", "degree-metadata", "syllable-flag", "write-yaml", "write-flag", "info-key-describe", "info-key-conv", "chord-describe-target", "attr-describe-root"} {
			kc = append(kc, c11KeyCase{door, k, u})
		}
	}
	mc.ParFor(len(kc), func(i int) {
		c11KeyEval(e, kc[i])
		e.R.NonTrivialN(1)
		e.R.Trace(1)
	})
	// any character the lexer takes for an accidental must be honoured by the converters
	type lk struct{ ch, ascii string }
	var looks []lk
	for _, s := range []string{"♯", "＃", "﹟", "⌗", "𝄰", "𝄪"} {
		looks = append(looks, lk{s, "#"})
	}
	for _, s := range []string{"♭", "ｂ", "𝄬", "𝄫", "ᵇ"} {
		looks = append(looks, lk{s, "b"})
	}
	var lookN int
	for _, l := range looks {
		for _, mode := range []string{"syllable", "degree"} {
			lookN++
			c11LookEval(e, c11Look{l.ch, l.ascii, mode})
		}
	}
	e.R.AddPart(ev.Part{Name: "look-alike-accidentals", Enumerated: "11 characters that look like a sharp or a flat (♯ ＃ ﹟ ⌗ 𝄰 𝄪 / ♭ ｂ 𝄬 𝄫 ᵇ) on a root and on a bass, in both notations: where the parser reports the character as an accidental, text conv refuses it or converts it like # / b", Executions: int64(lookN), Exhaustive: true})
	e.R.AddPart(ev.Part{Name: "unicode-accidental-in-keys", Enumerated: "10 keys with an accidental x 9 doors a key or note can come through (text metadata in both notations, --key on text conv / write / info key describe / info key conv, key: in the instances document, the root of `info chord describe -t`, `info attr describe -r`): the Unicode spelling is refused or gives the output of the ASCII spelling", Executions: int64(len(kc)), Exhaustive: true})
	if len(bases) > 0 {
		b := bases[len(bases)-4]
		e.R.Sample(map[string]any{"canonical": c11Build(b.toks, mc.NewReplay(nil)), "variant_example": "C\t♯ _m7 [01 ,\n2]"})
	}
}
